(* C06 - the boolean well-formedness check wf_notrace_b implies the schema properties the proofs use,
   so the theorems apply to concrete schemas (the wirings of the harness) by computation. *)
From Coq Require Import List NArith Bool Lia.
From Storage Require Import Base.Bytes Base.BytesFacts Store.Model Store.AListFacts Store.NoTrace Store.NoTraceFacts Store.NoTraceInv.
Import ListNotations.

Lemma nt_nodupb_NoDup l : nt_nodupb l = true -> NoDup l.
Proof.
  induction l as [|x l IH]; cbn; intros H; [constructor|].
  apply andb_prop in H as [H1 H2]. apply negb_true_iff in H1. constructor; [|apply IH; exact H2].
  intros Hin. apply ss_mem_in in Hin. congruence.
Qed.

Lemma NoDup_app_remove_l {A} (l l' : list A) : NoDup (l ++ l') -> NoDup l'.
Proof. induction l as [|x l IH]; cbn; intros H; [exact H|]. inversion H; subst. apply IH. assumption. Qed.

Lemma NoDup_app_remove_r {A} (l l' : list A) : NoDup (l ++ l') -> NoDup l.
Proof.
  induction l as [|x l IH]; cbn; intros H; [constructor|]. inversion H as [|? ? Hx Hn]; subst. constructor; [|apply IH; exact Hn].
  intros Hin. apply Hx. apply in_or_app. left. exact Hin.
Qed.

Lemma NoDup_app_disj {A} (a b : list A) x : NoDup (a ++ b) -> In x a -> In x b -> False.
Proof.
  induction a as [|y a IH]; cbn; intros Hn Ha Hb; [contradiction|].
  inversion Hn as [|? ? Hy Hn']; subst. destruct Ha as [->|Ha].
  - apply Hy. apply in_or_app. right. exact Hb.
  - exact (IH Hn' Ha Hb).
Qed.

Lemma NoDup_flat_map_inj {A B} (g : A -> list B) l a b x :
  NoDup (flat_map g l) -> In a l -> In b l -> In x (g a) -> In x (g b) -> a = b.
Proof.
  induction l as [|c l IH]; cbn; intros Hn Ha Hb Hxa Hxb; [contradiction|].
  pose proof (NoDup_app_remove_l _ _ Hn) as Hn'.
  destruct Ha as [->|Ha], Hb as [->|Hb]; [reflexivity | | | exact (IH Hn' Ha Hb Hxa Hxb)].
  - exfalso. eapply (NoDup_app_disj _ _ x Hn); [exact Hxa | apply in_flat_map; exists b; split; assumption].
  - exfalso. eapply (NoDup_app_disj _ _ x Hn); [exact Hxb | apply in_flat_map; exists a; split; assumption].
Qed.

Lemma NoDup_map_inj {A B} (g : A -> B) l a b : NoDup (map g l) -> In a l -> In b l -> g a = g b -> a = b.
Proof.
  induction l as [|c l IH]; cbn; intros Hn Ha Hb Hg; [contradiction|].
  inversion Hn as [|? ? Hc Hn']; subst.
  destruct Ha as [->|Ha], Hb as [->|Hb]; [reflexivity | | | exact (IH Hn' Ha Hb Hg)].
  - exfalso. apply Hc. rewrite Hg. apply in_map. exact Hb.
  - exfalso. apply Hc. rewrite <- Hg. apply in_map. exact Ha.
Qed.

Lemma find_store_in sch x d : find_store sch x = Some d -> In d sch /\ sd_name d = x.
Proof.
  induction sch as [|d0 sch IH]; cbn; [discriminate|].
  destruct (str_eqb (sd_name d0) x) eqn:E.
  - intros H; inversion H; subst. apply str_eqb_eq in E. split; [left; reflexivity | exact E].
  - intros H. destruct (IH H) as [A B]. split; [right; exact A | exact B].
Qed.

Lemma find_store_nodup sch d : NoDup (map sd_name sch) -> In d sch -> find_store sch (sd_name d) = Some d.
Proof.
  induction sch as [|d0 sch IH]; cbn; intros Hn Hin; [contradiction|].
  inversion Hn as [|? ? Hd Hn']; subst. destruct Hin as [->|Hin].
  - rewrite str_eqb_refl. reflexivity.
  - destruct (str_eqb (sd_name d0) (sd_name d)) eqn:E; [|apply IH; assumption].
    apply str_eqb_eq in E. exfalso. apply Hd. rewrite E. apply in_map. exact Hin.
Qed.

Section Sound.
  Variable sch : schema.
  Hypothesis Hwf : wf_notrace_b sch = true.

  Lemma wf_parts : NoDup (map sd_name sch) /\ nt_wf_parents sch = true /\
                   (forall d, In d sch -> wf_child sch d = true) /\ (forall d, In d sch -> wf_root sch d = true).
  Proof.
    unfold wf_notrace_b in Hwf. apply andb_prop in Hwf as [H H4]. apply andb_prop in H as [H H3]. apply andb_prop in H as [H1 H2].
    split; [apply nt_nodupb_NoDup; exact H1|]. split; [exact H2|]. rewrite forallb_forall in H3, H4. split; assumption.
  Qed.

  Let Hnames := proj1 wf_parts.
  Let Hparents := proj1 (proj2 wf_parts).
  Let Hchild := proj1 (proj2 (proj2 wf_parts)).
  Let Hroot := proj2 (proj2 (proj2 wf_parts)).

  Lemma cons_of_in s k : In k (cons_of sch s) -> exists d, find_store sch s = Some d /\ In d sch /\ sd_name d = s /\ In k (sd_cons d).
  Proof.
    unfold cons_of. destruct (find_store sch s) as [d|] eqn:E; [|contradiction]. intros H.
    destruct (find_store_in _ _ _ E) as [A B]. exists d. repeat split; assumption.
  Qed.

  Lemma links_of_in s l : In l (links_of sch s) -> exists d, find_store sch s = Some d /\ In d sch /\ sd_name d = s /\ In l (sd_links d).
  Proof.
    unfold links_of. destruct (find_store sch s) as [d|] eqn:E; [|contradiction]. intros H.
    destruct (find_store_in _ _ _ E) as [A B]. exists d. repeat split; assumption.
  Qed.

  Lemma is_rootb_decl t : is_rootb sch t = true -> exists d, find_store sch t = Some d /\ In d sch /\ sd_name d = t /\ sd_parent d = None.
  Proof.
    unfold is_rootb. destruct (find_store sch t) as [d|] eqn:E; [|discriminate]. destruct (sd_parent d) eqn:Ep; [discriminate|]. intros _.
    destruct (find_store_in _ _ _ E) as [A B]. exists d. repeat split; assumption.
  Qed.

  Lemma child_facts d p : In d sch -> sd_parent d = Some p ->
    is_rootb sch p = true /\
    (forall k, In k (sd_cons d) -> wf_cons sch d k = true) /\
    (forall l, In l (sd_links d) -> wf_link sch d l = true).
  Proof.
    intros Hin Hp. pose proof (Hchild d Hin) as H. unfold wf_child in H. rewrite Hp in H.
    apply andb_prop in H as [H H3]. apply andb_prop in H as [H1 H2]. split; [exact H1|]. split.
    - rewrite forallb_forall in H2. exact H2.
    - rewrite forallb_forall in H3. exact H3.
  Qed.

  Lemma root_facts d : In d sch -> sd_parent d = None ->
    NoDup (flat_map (fun c => unique_fields (sd_cons c)) (family sch (sd_name d))) /\
    NoDup (flat_map (fun c => setidx_fields (sd_cons c)) (family sch (sd_name d))) /\
    NoDup (sd_sets d ++ backrefs_on sch (sd_name d) ++ flat_map link_locals (family sch (sd_name d))) /\
    (forall k, In k (sd_cons d) -> wf_cons sch d k = true) /\
    (forall l, In l (sd_links d) -> wf_link sch d l = true).
  Proof.
    intros Hin Hp. pose proof (Hroot d Hin) as H. unfold wf_root in H. rewrite Hp in H.
    apply andb_prop in H as [H H5]. apply andb_prop in H as [H H4]. apply andb_prop in H as [H H3]. apply andb_prop in H as [H1 H2].
    split; [apply nt_nodupb_NoDup; exact H1|]. split; [apply nt_nodupb_NoDup; exact H2|]. split; [apply nt_nodupb_NoDup; exact H3|].
    split; [rewrite forallb_forall in H4; exact H4|].
    rewrite forallb_forall in H5. exact H5.
  Qed.

  Lemma wf_link_sym d lf os of_ : wf_link sch d (lf, os, of_) = true -> In (of_, sd_name d, lf) (links_of sch os).
  Proof.
    unfold wf_link. intros B. apply existsb_exists in B as [[[a b] c] [Hin' Heq]]. unfold name3_eqb in Heq.
    apply andb_prop in Heq as [Heq E3]. apply andb_prop in Heq as [E1 E2]. apply str_eqb_eq in E1, E2, E3. subst. exact Hin'.
  Qed.

  Lemma decl_links_wf d : In d sch -> forall l, In l (sd_links d) -> wf_link sch d l = true.
  Proof.
    intros Hd l Hl. destruct (sd_parent d) as [p|] eqn:Ep.
    - destruct (child_facts d p Hd Ep) as [_ [_ H]]. exact (H l Hl).
    - destruct (root_facts d Hd Ep) as [_ [_ [_ [_ H]]]]. exact (H l Hl).
  Qed.

  Lemma decl_cons_wf d : In d sch -> forall k, In k (sd_cons d) -> wf_cons sch d k = true.
  Proof.
    intros Hd k Hk. destruct (sd_parent d) as [p|] eqn:Ep.
    - destruct (child_facts d p Hd Ep) as [_ [H _]]. exact (H k Hk).
    - destruct (root_facts d Hd Ep) as [_ [_ [_ [H _]]]]. exact (H k Hk).
  Qed.

  Lemma root_of_decl s d : find_store sch s = Some d -> root_of sch s = match sd_parent d with Some p => p | None => s end.
  Proof. intros H. unfold root_of. rewrite H. reflexivity. Qed.

  Lemma not_child_root p : is_child sch p = false -> root_of sch p = p.
  Proof.
    unfold is_child, root_of. destruct (find_store sch p) as [dp|]; [|reflexivity]. destruct (sd_parent dp); [discriminate | reflexivity].
  Qed.

  Lemma parent_not_child d p : In d sch -> sd_parent d = Some p -> is_child sch p = false.
  Proof.
    intros Hin Hp. unfold nt_wf_parents in Hparents. rewrite forallb_forall in Hparents. specialize (Hparents d Hin).
    rewrite Hp in Hparents. apply negb_true_iff in Hparents. exact Hparents.
  Qed.

  Lemma s_roots x : root_of sch (root_of sch x) = root_of sch x /\ is_child sch (root_of sch x) = false.
  Proof.
    destruct (find_store sch x) as [d|] eqn:Ef.
    - destruct (find_store_in _ _ _ Ef) as [Hin _]. rewrite (root_of_decl _ _ Ef). destruct (sd_parent d) as [p|] eqn:Ep.
      + pose proof (parent_not_child d p Hin Ep) as Hc. split; [apply not_child_root; exact Hc | exact Hc].
      + assert (is_child sch x = false) as Hc by (unfold is_child; rewrite Ef, Ep; reflexivity).
        split; [apply not_child_root; exact Hc | exact Hc].
    - assert (root_of sch x = x) as -> by (unfold root_of; rewrite Ef; reflexivity).
      assert (is_child sch x = false) as Hc by (unfold is_child; rewrite Ef; reflexivity).
      split; [apply not_child_root; exact Hc | exact Hc].
  Qed.

  Lemma isroot_decl s d : find_store sch s = Some d -> sd_parent d = None -> isroot sch s.
  Proof. intros A B. unfold isroot, is_child, root_of. rewrite A, B. split; reflexivity. Qed.

  Lemma in_backrefs_on d f t b nl : In d sch -> In (CFkIndex f t b nl) (sd_cons d) -> In b (backrefs_on sch (root_of sch t)).
  Proof.
    intros Hd Hk. unfold backrefs_on. apply in_flat_map. exists d. split; [exact Hd|].
    apply in_flat_map. exists (CFkIndex f t b nl). split; [exact Hk|]. rewrite str_eqb_refl. left. reflexivity.
  Qed.

  Lemma in_link_locals d lf os of_ : In (lf, os, of_) (sd_links d) -> In lf (link_locals d).
  Proof. intros H. unfold link_locals. apply in_map_iff. exists (lf, os, of_). split; [reflexivity | exact H]. Qed.

  Lemma family_in r d : In d sch -> (sd_name d = r \/ sd_parent d = Some r) -> In d (family sch r).
  Proof.
    intros Hd H. unfold family. apply filter_In. split; [exact Hd|]. destruct H as [<- | ->]; [rewrite str_eqb_refl; reflexivity|].
    rewrite str_eqb_refl. apply orb_true_r.
  Qed.

  Lemma NoDup_flat_map_in {A B} (g : A -> list B) l a : NoDup (flat_map g l) -> In a l -> NoDup (g a).
  Proof.
    induction l as [|c l IH]; cbn; intros Hn Ha; [contradiction|]. destruct Ha as [->|Ha].
    - exact (NoDup_app_remove_r _ _ Hn).
    - apply IH; [exact (NoDup_app_remove_l _ _ Hn) | exact Ha].
  Qed.

  (* the declared root store of the family of a declared store, and the membership of the store in that family *)
  Lemma family_root s d : find_store sch s = Some d ->
    exists dr, In dr sch /\ sd_name dr = root_of sch s /\ sd_parent dr = None /\ find_store sch (root_of sch s) = Some dr /\
               In d (family sch (root_of sch s)).
  Proof.
    intros A. destruct (find_store_in _ _ _ A) as [B C]. rewrite (root_of_decl _ _ A).
    destruct (sd_parent d) as [p|] eqn:Ep.
    - destruct (child_facts d p B Ep) as [Hrp _]. destruct (is_rootb_decl p Hrp) as [dp [X0 [X [Y Z]]]]. exists dp.
      repeat split; try assumption. apply family_in; [exact B | right; exact Ep].
    - exists d. repeat split; try assumption. apply family_in; [exact B | left; exact C].
  Qed.

  (* a set index declared on store s (root or child): the declared root store of its family declares the string list *)
  Lemma setidx_root s f : In (CSetIdx f) (cons_of sch s) ->
    exists d dr, find_store sch s = Some d /\ In d sch /\ sd_name d = s /\ In (CSetIdx f) (sd_cons d) /\
                 In dr sch /\ sd_name dr = root_of sch s /\ sd_parent dr = None /\ In d (family sch (root_of sch s)) /\ In f (sd_sets dr).
  Proof.
    intros Hin. destruct (cons_of_in s _ Hin) as [d [A [B [C D]]]]. destruct (family_root s d A) as [dr [E1 [E2 [E3 [E4 E5]]]]].
    exists d, dr. refine (conj A (conj B (conj C (conj D (conj E1 (conj E2 (conj E3 (conj E5 _)))))))).
    pose proof (decl_cons_wf d B _ D) as H. cbn in H. rewrite (root_of_decl _ _ A) in E4.
    destruct (sd_parent d) as [p|] eqn:Ep.
    - rewrite E4 in H. apply ss_mem_in. exact H.
    - rewrite A in E4. inversion E4; subst dr. apply ss_mem_in. exact H.
  Qed.

  (* a link collection declared on store s: its local field is one of the link fields of the family of s *)
  Lemma link_in_family s lf os of_ : In (lf, os, of_) (links_of sch s) ->
    exists d dr, find_store sch s = Some d /\ In d sch /\ sd_name d = s /\ In (lf, os, of_) (sd_links d) /\
                 In dr sch /\ sd_name dr = root_of sch s /\ sd_parent dr = None /\ find_store sch (root_of sch s) = Some dr /\
                 In d (family sch (root_of sch s)) /\ In lf (flat_map link_locals (family sch (root_of sch s))).
  Proof.
    intros Hin. destruct (links_of_in s _ Hin) as [d [A [B [C D]]]]. destruct (family_root s d A) as [dr [E1 [E2 [E3 [E4 E5]]]]].
    exists d, dr. repeat split; try assumption. apply in_flat_map. exists d. split; [exact E5 | eapply in_link_locals; exact D].
  Qed.

  (* a foreign-key index declared on store s with target t: the target is declared; the root store of the target *)
  Lemma fk_target s f t b nl : In (CFkIndex f t b nl) (cons_of sch s) ->
    exists d dr, In d sch /\ sd_name d = s /\ In (CFkIndex f t b nl) (sd_cons d) /\
                 In dr sch /\ sd_name dr = root_of sch t /\ sd_parent dr = None /\ find_store sch (root_of sch t) = Some dr /\
                 In b (backrefs_on sch (root_of sch t)).
  Proof.
    intros Hin. destruct (cons_of_in s _ Hin) as [d [A [B [C D]]]].
    pose proof (decl_cons_wf d B _ D) as H. cbn in H.
    apply andb_prop in H as [H _]. apply andb_prop in H as [H _]. apply andb_prop in H as [H _].
    unfold declaredb in H. destruct (find_store sch t) as [dt|] eqn:Et; [|discriminate].
    destruct (family_root t dt Et) as [dr [E1 [E2 [E3 [E4 _]]]]].
    exists d, dr. refine (conj B (conj C (conj D (conj E1 (conj E2 (conj E3 (conj E4 _))))))). exact (in_backrefs_on d f t b nl B D).
  Qed.

  Theorem wf_notrace_b_sound : wfprops sch.
  Proof.
    constructor.
    - (* roots *) intros x. apply s_roots.
    - intros x. apply s_roots.
    - (* children *)
      intros r0 d Hin. unfold children_of in Hin. apply filter_In in Hin as [Hin Hp].
      destruct (sd_parent d) as [p|] eqn:Ep; [|discriminate]. apply str_eqb_eq in Hp. subst p.
      rewrite (root_of_decl _ _ (find_store_nodup _ _ Hnames Hin)), Ep. reflexivity.
    - (* children_child *)
      intros r0 d Hin. unfold children_of in Hin. apply filter_In in Hin as [Hin Hp].
      destruct (sd_parent d) as [p|] eqn:Ep; [|discriminate].
      unfold is_child. rewrite (find_store_nodup _ _ Hnames Hin), Ep. reflexivity.
    - (* sown *)
      intros s s' f Hr Hin Hin'.
      destruct (setidx_root s f Hin) as [d [dr [A [B [C [D [Hdr [Hnr [Hpr [Hfd _]]]]]]]]]].
      destruct (setidx_root s' f Hin') as [d' [_ [A' [B' [C' [D' [_ [_ [_ [Hfd' _]]]]]]]]]]. rewrite <- Hr in Hfd'.
      destruct (root_facts dr Hdr Hpr) as [_ [Hnd _]]. rewrite Hnr in Hnd.
      assert (d = d') as <-.
      { eapply (NoDup_flat_map_inj _ _ d d' f Hnd Hfd Hfd'); unfold setidx_fields; apply in_flat_map; exists (CSetIdx f); (split; [assumption | left; reflexivity]). }
      congruence.
    - (* uchild *)
      intros s d f nl Hc Hf Hin. unfold cons_of in Hin. rewrite Hf in Hin. destruct (find_store_in _ _ _ Hf) as [Hd _].
      unfold is_child in Hc. rewrite Hf in Hc. destruct (sd_parent d) as [p|] eqn:Ep; [|discriminate].
      pose proof (decl_cons_wf d Hd _ Hin) as H. cbn in H. rewrite Ep in H. exact H.
    - (* fchild *)
      intros s d k f Hc Hf Hin Hk. unfold cons_of in Hin. rewrite Hf in Hin. destruct (find_store_in _ _ _ Hf) as [Hd _].
      unfold is_child in Hc. rewrite Hf in Hc. destruct (sd_parent d) as [p|] eqn:Ep; [|discriminate].
      pose proof (decl_cons_wf d Hd _ Hin) as H. destruct k; try contradiction; subst; cbn in H; rewrite Ep in H.
      + apply andb_prop in H as [H _]. apply andb_prop in H as [_ H]. exact H.
      + apply andb_prop in H as [H _]. apply andb_prop in H as [_ H]. exact H.
    - (* uown *)
      intros s s' f nl nl' Hr Hin Hin'.
      destruct (cons_of_in s _ Hin) as [d [A [B [C D]]]]. destruct (cons_of_in s' _ Hin') as [d' [A' [B' [C' D']]]].
      destruct (family_root s d A) as [dr [Hdr [Hnr [Hpr [_ Hfd]]]]].
      destruct (family_root s' d' A') as [_ [_ [_ [_ [_ Hfd']]]]]. rewrite <- Hr in Hfd'.
      destruct (root_facts dr Hdr Hpr) as [Hnd _]. rewrite Hnr in Hnd.
      assert (d = d') as <-.
      { eapply (NoDup_flat_map_inj _ _ d d' f Hnd Hfd Hfd').
        - unfold unique_fields. apply in_flat_map. exists (CUnique f nl). split; [exact D | left; reflexivity].
        - unfold unique_fields. apply in_flat_map. exists (CUnique f nl'). split; [exact D' | left; reflexivity]. }
      congruence.
    - (* fk_guard *)
      intros s f t b nl Hin. destruct (cons_of_in s _ Hin) as [d [_ [Hd [Hn Hk]]]].
      pose proof (decl_cons_wf d Hd _ Hk) as H. cbn in H.
      apply andb_prop in H as [_ H]. apply existsb_exists in H as [k' [Hk' Hm]].
      destruct k'; try discriminate.
      + apply str_eqb_eq in Hm. subst. left. exact Hk'.
      + apply andb_prop in Hm as [E1 E2]. apply str_eqb_eq in E1, E2. subst. right. eexists. exact Hk'.
    - (* fc_guard *)
      intros s f t nl Hin. destruct (cons_of_in s _ Hin) as [d [_ [Hd [Hn Hk]]]].
      pose proof (decl_cons_wf d Hd _ Hk) as H. cbn in H.
      apply andb_prop in H as [_ H]. apply existsb_exists in H as [k' [Hk' Hm]].
      destruct k'; try discriminate.
      apply andb_prop in Hm as [E1 E2]. apply str_eqb_eq in E1, E2. subst. eexists. exact Hk'.
    - (* buniq *)
      intros s s' f f' t t' b nl nl' Hin Hin' Hrt.
      destruct (fk_target s f t b nl Hin) as [d [dr [Hd [Hn [Hk [Hdr [Hnr [Hpr _]]]]]]]].
      destruct (fk_target s' f' t' b nl' Hin') as [d' [_ [Hd' [Hn' [Hk' _]]]]].
      destruct (root_facts dr Hdr Hpr) as [_ [_ [Hnd _]]]. rewrite Hnr in Hnd.
      pose proof (NoDup_app_remove_r _ _ (NoDup_app_remove_l _ _ Hnd)) as Hb. unfold backrefs_on in Hb.
      set (r := root_of sch t) in *.
      set (g := fun k => match k with CFkIndex _ t0 b0 _ => if str_eqb (root_of sch t0) r then [b0] else [] | _ => [] end) in *.
      assert (Hg : In b (g (CFkIndex f t b nl))) by (cbn; fold r; rewrite str_eqb_refl; left; reflexivity).
      assert (Hg' : In b (g (CFkIndex f' t' b nl'))) by (cbn; rewrite <- Hrt; fold r; rewrite str_eqb_refl; left; reflexivity).
      assert (d = d') as <-.
      { eapply (NoDup_flat_map_inj _ _ d d' b Hb Hd Hd'); apply in_flat_map.
        - exists (CFkIndex f t b nl). split; [exact Hk | exact Hg].
        - exists (CFkIndex f' t' b nl'). split; [exact Hk' | exact Hg']. }
      split; [congruence|].
      pose proof (NoDup_flat_map_in _ _ d Hb Hd) as Hinner.
      pose proof (NoDup_flat_map_inj _ _ _ _ b Hinner Hk Hk' Hg Hg') as E. inversion E. split; reflexivity.
    - (* link_sym *)
      intros s lf os of_ Hin. destruct (links_of_in s _ Hin) as [d [A [B [C D]]]].
      pose proof (wf_link_sym d lf os of_ (decl_links_wf d B _ D)) as H. rewrite C in H. exact H.
    - (* link_uniq *)
      intros s s' lf os of_ os' of' Hin Hin' Hr.
      destruct (link_in_family s lf os of_ Hin) as [d [dr [A [B [C [D [Hdr [Hnr [Hpr [_ [Hfd Hlf]]]]]]]]]]].
      destruct (link_in_family s' lf os' of' Hin') as [d' [dr' [A' [B' [C' [D' [_ [_ [_ [_ [Hfd' _]]]]]]]]]]].
      rewrite <- Hr in Hfd'.
      destruct (root_facts dr Hdr Hpr) as [_ [_ [Hnd _]]]. rewrite Hnr in Hnd.
      pose proof (NoDup_app_remove_l _ _ (NoDup_app_remove_l _ _ Hnd)) as Hl.
      assert (d = d') as <-.
      { eapply (NoDup_flat_map_inj _ _ d d' lf Hl Hfd Hfd'); eapply in_link_locals; eauto. }
      split; [congruence|].
      pose proof (NoDup_flat_map_in _ _ d Hl Hfd) as Hinner. unfold link_locals in Hinner.
      pose proof (NoDup_map_inj _ _ _ _ Hinner D D' eq_refl) as E. inversion E. split; reflexivity.
    - (* disj_sb *)
      intros s0 f0 s f t b nl Hc Hk Hrt.
      destruct (setidx_root s0 f0 Hc) as [_ [dr [_ [_ [_ [_ [Hdr [Hnr [Hpr [_ Hset]]]]]]]]]].
      destruct (fk_target s f t b nl Hk) as [_ [_ [_ [_ [_ [_ [_ [_ [_ Hb]]]]]]]]]. rewrite Hrt in Hb.
      destruct (root_facts dr Hdr Hpr) as [_ [_ [Hnd _]]]. rewrite Hnr in Hnd. intros ->.
      apply (NoDup_app_disj _ _ b Hnd); [exact Hset | apply in_or_app; left; exact Hb].
    - (* disj_sl *)
      intros s0 f0 s lf os of_ Hc Hl Hrs.
      destruct (setidx_root s0 f0 Hc) as [_ [dr [_ [_ [_ [_ [Hdr [Hnr [Hpr [_ Hset]]]]]]]]]].
      destruct (link_in_family s lf os of_ Hl) as [_ [_ [_ [_ [_ [_ [_ [_ [_ [_ [_ Hlf]]]]]]]]]]]. rewrite Hrs in Hlf.
      destruct (root_facts dr Hdr Hpr) as [_ [_ [Hnd _]]]. rewrite Hnr in Hnd. intros ->.
      apply (NoDup_app_disj _ _ lf Hnd); [exact Hset | apply in_or_app; right; exact Hlf].
    - (* disj_bl *)
      intros s f t b nl s' lf os of_ Hk Hl Hrs.
      destruct (link_in_family s' lf os of_ Hl) as [_ [dr [_ [_ [_ [_ [Hdr [Hnr [Hpr [_ [_ Hlf]]]]]]]]]]].
      destruct (fk_target s f t b nl Hk) as [_ [_ [_ [_ [_ [_ [_ [_ [_ Hb]]]]]]]]]. rewrite <- Hrs in Hb.
      destruct (root_facts dr Hdr Hpr) as [_ [_ [Hnd _]]]. rewrite Hnr in Hnd. intros ->.
      apply (NoDup_app_disj _ _ lf (NoDup_app_remove_l _ _ Hnd)); [exact Hb | exact Hlf].
    - (* sets_b *)
      intros d s f t b nl Hf Hk Hin.
      destruct (fk_target s f t b nl Hk) as [_ [dr [_ [_ [_ [Hdr [Hnr [Hpr [Hfr Hb]]]]]]]]].
      rewrite Hfr in Hf. inversion Hf; subst d.
      destruct (root_facts dr Hdr Hpr) as [_ [_ [Hnd _]]]. rewrite Hnr in Hnd.
      apply (NoDup_app_disj _ _ b Hnd Hin). apply in_or_app. left. exact Hb.
    - (* sets_l *)
      intros s d lf os of_ Hf Hl Hin.
      destruct (link_in_family s lf os of_ Hl) as [_ [dr [_ [_ [_ [_ [Hdr [Hnr [Hpr [Hfr [_ Hlf]]]]]]]]]]].
      rewrite Hfr in Hf. inversion Hf; subst d.
      destruct (root_facts dr Hdr Hpr) as [_ [_ [Hnd _]]]. rewrite Hnr in Hnd.
      apply (NoDup_app_disj _ _ lf Hnd Hin). apply in_or_app. right. exact Hlf.
    - (* fk_nosys *)
      intros s f t b nl Hin. destruct (cons_of_in s _ Hin) as [d [_ [Hd [_ Hk]]]].
      pose proof (decl_cons_wf d Hd _ Hk) as H. cbn in H.
      apply andb_prop in H as [H _]. apply andb_prop in H as [H _]. apply andb_prop in H as [_ H].
      apply negb_true_iff in H. apply str_eqb_neq in H. exact H.
    - (* fc_nosys *)
      intros s f t nl Hin. destruct (cons_of_in s _ Hin) as [d [_ [Hd [_ Hk]]]].
      pose proof (decl_cons_wf d Hd _ Hk) as H. cbn in H.
      apply andb_prop in H as [H _]. apply andb_prop in H as [H _]. apply andb_prop in H as [_ H].
      apply negb_true_iff in H. apply str_eqb_neq in H. exact H.
    - (* child_parent *)
      intros s d p Hf Hp. destruct (find_store_in _ _ _ Hf) as [Hd _]. destruct (child_facts d p Hd Hp) as [H _].
      destruct (is_rootb_decl p H) as [dp [A _]]. congruence.
  Qed.
End Sound.
