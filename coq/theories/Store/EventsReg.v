(* What a listener registration KEEPS of the change types it was called with (C08, fifth strengthening).
   Model only - proofs in Store/EventRegProofs.v.

   store_crud.go:  AddEntityEventListener(listener, changeType, changeTypes ...EntityEventType)  and its three
   siblings (AddEntityEventListenerF, AddListener, AddEntityIdListener) store

       changeTypes: append([]EntityEventType{changeType}, changeTypes...)

   in the adapter; the adapters' ProcessPostCommit ranges over that slice whenever an event is delivered
   (Store/Events.v [invocations] over [l_types]).  [l_types] is an immutable Coq list, so Events.v / EventsMulti.v
   silently assume that the kinds of a registration are FIXED AT REGISTRATION TIME: "each listener registered for
   that change type" means the types named in the Add*Listener call, whatever the caller or the library does later.
   In Go that is a statement about memory: a variadic call  f(x, sl...)  hands the callee the caller's slice - same
   backing array, same spare capacity - and  append(sl, v)  writes v INTO that array when len(sl) < cap(sl).
   This file models just enough of it to state the assumption as a theorem about the registration code:

   * a heap of arrays (library-owned or caller-owned) and Go slices (array, offset, length, capacity) over them;
     [go_append] is the built-in append: in place while the capacity suffices, otherwise a fresh array (the cells
     beyond the new length, [spare], are whatever the allocator's growth policy leaves - any content);
   * [reg_pinned] = the expression of the pinned tree above; [reg_alias] =  append(changeTypes, changeType)  - the
     "same thing, shorter" that keeps the caller's array (kept as the refuted variant, Examples/C08Regs.v);
   * a caller program [caction]: build a slice (make + append, with or without spare capacity), overwrite a cell of
     one of its own arrays at any time, register with (first type, slice of additional types) - the SAME slice as
     often as it likes.  The caller holds no reference to the library's arrays (unexported adapter fields).

   Store/EventRegProofs.v / Properties/C08.v [registration_types_fixed]: after ANY caller program the types read
   through the slice kept for registration k are  first_k :: (the additional types as they were when registration k
   was made)  - later registrations, re-use of the slice and writes of the caller change nothing. *)
From Coq Require Import List Bool Arith.
From Storage Require Import Base.Bytes Store.Model Store.Events.
Import ListNotations.

Record garr := mkArr { a_lib : bool; a_cells : list etype }.

(* arrays by identity; the newest binding of an identity is the array's current content *)
Record gheap := mkHeap { h_next : nat; h_arrs : list (nat * garr) }.

Definition heap_empty : gheap := mkHeap 0 [].

Definition hget (h : gheap) (a : nat) : option garr :=
  option_map snd (find (fun p => Nat.eqb (fst p) a) (h_arrs h)).

Definition hset (h : gheap) (a : nat) (v : garr) : gheap := mkHeap (h_next h) ((a, v) :: h_arrs h).

Definition halloc (h : gheap) (lib : bool) (cells : list etype) : gheap * nat :=
  (mkHeap (S (h_next h)) ((h_next h, mkArr lib cells) :: h_arrs h), h_next h).

Record gslice := mkSlice { s_arr : nat; s_off : nat; s_len : nat; s_cap : nat }.

(* nil and []T{} : no cell, no capacity (the array is never looked at) *)
Definition nil_slice : gslice := mkSlice 0 0 0 0.

(* range over the slice *)
Definition sread (h : gheap) (s : gslice) : list etype :=
  match hget h (s_arr s) with
  | Some a => firstn (s_len s) (skipn (s_off s) (a_cells a))
  | None => []
  end.

Definition write_at (cells : list etype) (i : nat) (vs : list etype) : list etype :=
  firstn i cells ++ vs ++ skipn (i + length vs) cells.

(* append(s, vs...) executed by the library ([lib] = true) or the caller *)
Definition go_append (spare : list etype) (lib : bool) (h : gheap) (s : gslice) (vs : list etype) : gheap * gslice :=
  if s_len s + length vs <=? s_cap s then
    match hget h (s_arr s) with
    | Some a => (hset h (s_arr s) (mkArr (a_lib a) (write_at (a_cells a) (s_off s + s_len s) vs)),
                 mkSlice (s_arr s) (s_off s) (s_len s + length vs) (s_cap s))
    | None => (h, s)
    end
  else
    let cells := sread h s ++ vs ++ spare in
    let (h', a) := halloc h lib cells in
    (h', mkSlice a 0 (s_len s + length vs) (length cells)).

(* append([]EntityEventType{changeType}, changeTypes...) *)
Definition reg_pinned (spare : list etype) (h : gheap) (first : etype) (rest : gslice) : gheap * gslice :=
  let vs := sread h rest in
  let (h1, a) := halloc h true [first] in
  go_append spare true h1 (mkSlice a 0 1 1) vs.

(* append(changeTypes, changeType): NOT the pinned code *)
Definition reg_alias (spare : list etype) (h : gheap) (first : etype) (rest : gslice) : gheap * gslice :=
  go_append spare true h rest [first].

Inductive caction :=
| CMake (cells : list etype)           (* a new array of the caller (make / literal / append that had to grow) *)
| CWrite (a i : nat) (v : etype)       (* sl[i] = v  on one of the caller's arrays (also through a re-slice up to cap) *)
| CRegister (first : etype) (rest : gslice).   (* store.Add*Listener(l, first, rest...) *)

Definition cstate : Type := gheap * list gslice.   (* the heap, the slice kept per registration (in order) *)

Definition cstep (reg : gheap -> etype -> gslice -> gheap * gslice) (st : cstate) (c : caction) : cstate :=
  let (h, regs) := st in
  match c with
  | CMake cells => (fst (halloc h false cells), regs)
  | CWrite a i v =>
      match hget h a with
      | Some ar =>
          if a_lib ar || negb (i <? length (a_cells ar)) then (h, regs)
          else (hset h a (mkArr false (write_at (a_cells ar) i [v])), regs)
      | None => (h, regs)
      end
  | CRegister first rest => let (h', s) := reg h first rest in (h', regs ++ [s])
  end.

Definition run_caller (reg : gheap -> etype -> gslice -> gheap * gslice) (st : cstate) (acts : list caction) : cstate :=
  fold_left (cstep reg) acts st.

(* the change types every registration holds NOW (what its adapter would range over) *)
Definition reg_types (st : cstate) : list (list etype) := map (sread (fst st)) (snd st).
