(* Facts about the association lists and sorted string sets of the store machine.
   None of them needs sortedness. *)
From Coq Require Import List NArith Bool Lia.
From Storage Require Import Base.Bytes Base.BytesFacts Store.Model.
Import ListNotations.

Section AL.
  Context {V : Type}.

  Lemma al_get_put_same k (v : V) l : al_get k (al_put k v l) = Some v.
  Proof.
    induction l as [|[k' v'] l IH]; cbn.
    - rewrite str_eqb_refl. reflexivity.
    - destruct (str_cmp k k') eqn:E; cbn.
      + rewrite str_eqb_refl. reflexivity.
      + rewrite str_eqb_refl. reflexivity.
      + destruct (str_eqb k k') eqn:E2.
        * apply str_eqb_eq in E2. subst. rewrite str_cmp_refl in E. discriminate.
        * exact IH.
  Qed.

  Lemma al_get_put_other k k2 (v : V) l : k <> k2 -> al_get k2 (al_put k v l) = al_get k2 l.
  Proof.
    intros Hne. induction l as [|[k' v'] l IH]; cbn.
    - assert (str_eqb k2 k = false) as -> by (apply str_eqb_neq; congruence). reflexivity.
    - destruct (str_cmp k k') eqn:E; cbn.
      + apply str_cmp_eq in E. subst k'.
        assert (str_eqb k2 k = false) as -> by (apply str_eqb_neq; congruence). reflexivity.
      + assert (str_eqb k2 k = false) as -> by (apply str_eqb_neq; congruence). reflexivity.
      + destruct (str_eqb k2 k'); [reflexivity | exact IH].
  Qed.

  Lemma al_get_put k k2 (v : V) l :
    al_get k2 (al_put k v l) = if str_eqb k k2 then Some v else al_get k2 l.
  Proof.
    destruct (str_eqb k k2) eqn:E.
    - apply str_eqb_eq in E. subst. apply al_get_put_same.
    - apply str_eqb_neq in E. apply al_get_put_other. exact E.
  Qed.

  Lemma al_get_del_same k (l : alist V) : al_get k (al_del k l) = None.
  Proof.
    induction l as [|[k' v'] l IH]; cbn; [reflexivity|].
    destruct (str_eqb k k') eqn:E; [exact IH|]. cbn. rewrite E. exact IH.
  Qed.

  Lemma al_get_del_other k k2 (l : alist V) : k <> k2 -> al_get k2 (al_del k l) = al_get k2 l.
  Proof.
    intros Hne. induction l as [|[k' v'] l IH]; cbn; [reflexivity|].
    destruct (str_eqb k k') eqn:E.
    - apply str_eqb_eq in E. subst k'.
      assert (str_eqb k2 k = false) as -> by (apply str_eqb_neq; congruence). exact IH.
    - cbn. destruct (str_eqb k2 k'); [reflexivity | exact IH].
  Qed.

  Lemma al_get_del k k2 (l : alist V) :
    al_get k2 (al_del k l) = if str_eqb k k2 then None else al_get k2 l.
  Proof.
    destruct (str_eqb k k2) eqn:E.
    - apply str_eqb_eq in E. subst. apply al_get_del_same.
    - apply str_eqb_neq in E. apply al_get_del_other. exact E.
  Qed.

  Lemma al_get_in k (v : V) l : al_get k l = Some v -> In (k, v) l.
  Proof.
    induction l as [|[k' v'] l IH]; cbn; [discriminate|].
    destruct (str_eqb k k') eqn:E.
    - intros H; inversion H; subst. apply str_eqb_eq in E. subst. left. reflexivity.
    - intros H. right. apply IH. exact H.
  Qed.

  Lemma al_get_keys k (l : alist V) : al_get k l <> None <-> In k (al_keys l).
  Proof.
    unfold al_keys. induction l as [|[k' v'] l IH]; cbn.
    - split; [congruence | contradiction].
    - destruct (str_eqb k k') eqn:E.
      + apply str_eqb_eq in E. subst. split; [intros _; left; reflexivity | congruence].
      + apply str_eqb_neq in E. rewrite IH. split; [intros H; right; exact H | intros [H|H]; [congruence | exact H]].
  Qed.
End AL.

(* ---- string sets ---- *)
Lemma ss_mem_in x l : ss_mem x l = true <-> In x l.
Proof.
  induction l as [|y l IH]; cbn; [split; [discriminate|contradiction]|].
  rewrite orb_true_iff, IH, str_eqb_eq. split; intros [H|H]; [left; congruence | right; exact H | left; congruence | right; exact H].
Qed.

Lemma ss_add_in x y l : In y (ss_add x l) <-> y = x \/ In y l.
Proof.
  induction l as [|z l IH]; cbn.
  - intuition congruence.
  - destruct (str_cmp x z) eqn:E; cbn.
    + apply str_cmp_eq in E. subst z. intuition congruence.
    + intuition congruence.
    + rewrite IH. intuition congruence.
Qed.

Lemma ss_del_in x y l : In y (ss_del x l) <-> y <> x /\ In y l.
Proof.
  induction l as [|z l IH]; cbn; [intuition|].
  destruct (str_eqb x z) eqn:E.
  - apply str_eqb_eq in E. subst z. rewrite IH. intuition congruence.
  - apply str_eqb_neq in E. cbn. rewrite IH. intuition congruence.
Qed.

Lemma ss_of_list_in y l : In y (ss_of_list l) <-> In y l.
Proof.
  unfold ss_of_list.
  assert (forall acc, In y (fold_left (fun a x => ss_add x a) l acc) <-> In y l \/ In y acc) as H.
  { induction l as [|x l IH]; intros acc; cbn.
    - intuition.
    - rewrite IH, ss_add_in. intuition congruence. }
  rewrite H. cbn. intuition.
Qed.

Lemma strs_eqb_eq a b : strs_eqb a b = true <-> a = b.
Proof.
  revert b. induction a as [|x a IH]; intros [|y b]; cbn; split; intros H; try reflexivity; try discriminate.
  - apply andb_prop in H as [H1 H2]. apply str_eqb_eq in H1. apply IH in H2. subst. reflexivity.
  - inversion H; subst. rewrite str_eqb_refl. apply IH. reflexivity.
Qed.
