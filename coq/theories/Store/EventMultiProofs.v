(* Multi-type listener registrations: exactly one notification per committed change whose kind is registered
   (C08, second strengthening).  Model: Store/EventsMulti.v over Store/Events.v [invocations] / [delivered_to]. *)
From Coq Require Import List NArith Bool.
From Storage Require Import Base.Bytes Store.Model Store.Events Store.EventProofs Store.EventsMulti.
Import ListNotations.

Lemma same_kind_fires t c : adapter_fires t c = same_kind c t.
Proof. unfold same_kind. apply adapter_fires_spec. Qed.

Lemma change_eqb_eq a b : change_eqb a b = true -> a = b.
Proof. destruct a, b; cbn; congruence. Qed.

(* no later entry of the kind of t: the adapters' loop finds no second match *)
Lemma filter_no_second_match t c r :
  existsb (same_kind (et_change t)) r = false -> same_kind c t = true ->
  filter (fun t' => adapter_fires t' c) r = [].
Proof.
  intros Hn Hm. unfold same_kind in Hm. apply change_eqb_eq in Hm. subst c.
  induction r as [|x r IH]; [reflexivity|]. cbn [existsb] in Hn. apply orb_false_iff in Hn as [Hx Hr].
  cbn [filter]. rewrite same_kind_fires, Hx. exact (IH Hr).
Qed.

Lemma invocations_multi l c :
  style_filters (l_style l) = true -> kinds_distinct (l_types l) = true ->
  invocations l c = match registered_mode l c with Some a => [a] | None => [] end.
Proof.
  intros Hs Hd. unfold invocations, registered_mode. rewrite Hs. induction (l_types l) as [|t r IH]; [reflexivity|].
  cbn [kinds_distinct] in Hd. apply andb_true_iff in Hd as [Hn Hr]. apply negb_true_iff in Hn.
  cbn [filter find]. rewrite same_kind_fires. destruct (same_kind c t) eqn:Em.
  - cbn [map option_map]. rewrite (filter_no_second_match t c r Hn Em). reflexivity.
  - exact (IH Hr).
Qed.

Lemma registered_mode_registers l c :
  registers l c = match registered_mode l c with Some _ => true | None => false end.
Proof.
  unfold registers, registered_mode. induction (l_types l) as [|t r IH]; [reflexivity|].
  cbn [existsb find]. destruct (same_kind c t); [reflexivity | exact IH].
Qed.

(* what a multi-type registration receives: the events of its store whose change kind it names, each once *)
Lemma delivered_to_multi l evs :
  style_filters (l_style l) = true -> kinds_distinct (l_types l) = true ->
  map fst (delivered_to l evs) =
  filter (fun e => str_eqb (ev_store e) (l_store l) && registers l (ev_change e)) evs.
Proof.
  intros Hs Hd. unfold delivered_to. induction evs as [|e evs IH]; [reflexivity|]. cbn [flat_map filter].
  rewrite map_app, IH, (invocations_multi l _ Hs Hd), registered_mode_registers.
  destruct (str_eqb (ev_store e) (l_store l)); [|reflexivity]. cbn [andb].
  destruct (registered_mode l (ev_change e)); reflexivity.
Qed.

Lemma delivered_to_multi_modes l evs :
  style_filters (l_style l) = true -> kinds_distinct (l_types l) = true ->
  Forall (fun p => registered_mode l (ev_change (fst p)) = Some (snd p)) (delivered_to l evs).
Proof.
  intros Hs Hd. unfold delivered_to. induction evs as [|e evs IH]; [constructor|]. cbn [flat_map].
  apply Forall_app. split; [|exact IH]. destruct (str_eqb (ev_store e) (l_store l)); [|constructor].
  rewrite (invocations_multi l _ Hs Hd). destruct (registered_mode l (ev_change e)) as [a|] eqn:E; cbn [map].
  - constructor; [exact E | constructor].
  - constructor.
Qed.

Lemma multi_count_lemma l evs e :
  style_filters (l_style l) = true -> kinds_distinct (l_types l) = true ->
  count_ev e (map fst (delivered_to l evs)) =
  if str_eqb (ev_store e) (l_store l) && registers l (ev_change e) then count_ev e evs else 0%nat.
Proof. intros Hs Hd. rewrite (delivered_to_multi l evs Hs Hd). apply count_ev_filter. Qed.

(* a registration (of any of the four filtering styles) naming several change types is notified, for a committed
   transaction, exactly as often as the expected multiset holds events on its store whose change kind it names -
   once per committed change - and in the mode (sync / async) of the entry of that kind; never for another kind *)
Lemma listener_multi_invoked_exactly_once_lemma sch rkl fuel st t rs st' evs l e :
  wf_events_b sch rkl = true ->
  run_tx sch fuel st t = (rs, true, st', evs) ->
  style_filters (l_style l) = true -> kinds_distinct (l_types l) = true ->
  count_ev e (map fst (delivered_to l evs)) =
  (if str_eqb (ev_store e) (l_store l) && registers l (ev_change e)
   then expected_events sch (tx_trace sch fuel st t) e else 0%nat) /\
  Forall (fun p => registered_mode l (ev_change (fst p)) = Some (snd p)) (delivered_to l evs).
Proof.
  intros Hwf H Hs Hd. split.
  - rewrite (multi_count_lemma l evs e Hs Hd), (events_exactly_once_wf sch rkl Hwf _ _ _ _ _ _ H). reflexivity.
  - exact (delivered_to_multi_modes l evs Hs Hd).
Qed.

(* a single-type registration is the special case *)
Lemma kinds_distinct_single t : kinds_distinct [t] = true.
Proof. reflexivity. Qed.
