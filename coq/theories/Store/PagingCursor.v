(* C15: queries through a store of a parent/child family over a CALLER-SUPPLIED cursor
   (Store.QueryWithCursorC -> scanner.ScanCursor(tx, cursorProvider, query)).

   Model only (proofs: Store/PagingCursorProofs.v).  Store/Model.v and Store/Paging.v are unchanged: the loops of
   Store/Paging.v already take the list of ids the cursor yields as an argument; there it is always the content of the
   root store's entities bucket.  Here it is an arbitrary candidate list [cands] - what the cursor of a set index of
   the parent (IteratorMatchingAllOf / AnyOf), a related-entities cursor (link collection, back-reference set, string
   list) or a tree set of ids yields: ids of parent-level data, with and without child data.

   The child-store test  IsChildStore && !IsEntityPresent && !IsExtended => skip the row  belongs to the ROW loop
   (nextUnpaged / sortingScanner.ScanCursor), so it applies to every row whatever cursor produced it. *)
From Coq Require Import List NArith Bool Arith.
From Storage Require Import Base.Bytes Store.Model Store.Paging.
Import ListNotations.
Local Open Scope nat_scope.

(* uniqueIndexScanner.ScanCursor over the ids the supplied cursor yields *)
Definition unsorted_scan_over (sch : schema) (st : state) (s : name) (flt : qfilter) (skip : nat) (limit : option nat)
    (cands : list id) : list id * nat :=
  unsorted_loop (q_visible sch st s) (q_match sch st s flt) skip limit cands 0 0 0 [].

(* sortingScanner.ScanCursor over the ids the supplied cursor yields *)
Definition sorting_scan_over (sch : schema) (st : state) (s : name) (flt : qfilter) (f : name) (asc : bool)
    (skip : nat) (limit : option nat) (cands : list id) : list id * nat :=
  let (tree, count) :=
    sorting_loop (q_visible sch st s) (q_match sch st s flt) (row_leb sch st s f asc) (max_results skip limit) cands [] 0 in
  (skipn skip tree, count).

(* specification: the candidates the store shows that satisfy the filter, in cursor order or sorted, then the page *)
Definition cands_matching (sch : schema) (st : state) (s : name) (flt : qfilter) (cands : list id) : list id :=
  filter (fun i => q_visible sch st s i && q_match sch st s flt i) cands.

Definition cursor_query_page (sch : schema) (st : state) (s : name) (flt : qfilter) (srt : option (name * bool))
    (skip : nat) (limit : option nat) (cands : list id) : list id * nat :=
  let m := cands_matching sch st s flt cands in
  (page skip limit (match srt with None => m | Some (f, asc) => sort_ids (row_leb sch st s f asc) m end), length m).

(* the candidate lists of the cursor providers the harness uses (derived from the entities; the index / link facts are
   compared with the entities separately) *)
(* IteratorMatchingAllOf(set index of root store r over the string list sf, vals): the entities holding every value *)
Definition cands_set_all (sch : schema) (st : state) (r sf : name) (vals : list str) : list id :=
  match vals with
  | [] => []
  | _ => filter (fun i => forallb (fun v => ss_mem v (get_set sch st r i sf)) vals) (ids_of st r)
  end.
(* IteratorMatchingAnyOf *)
Definition cands_set_any (sch : schema) (st : state) (r sf : name) (vals : list str) : list id :=
  filter (fun i => existsb (fun v => ss_mem v (get_set sch st r i sf)) vals) (ids_of st r).

(* the loop WITHOUT the child test in the row loop (the test moved into the default entities-bucket cursor): what a
   query over a supplied cursor answers then - used by the refuted example only *)
Definition unsorted_scan_over_unfiltered (sch : schema) (st : state) (s : name) (flt : qfilter) (skip : nat)
    (limit : option nat) (cands : list id) : list id * nat :=
  unsorted_loop (fun _ => true) (q_match sch st s flt) skip limit cands 0 0 0 [].
