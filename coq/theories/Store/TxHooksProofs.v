(* Proofs about the transaction hooks (C08): Store/TxHooks.v over Store/Model.v + Store/Events.v. *)
From Coq Require Import List NArith Bool Arith Lia.
From Storage Require Import Base.Bytes Store.Model Store.Events Store.EventProofs Store.TxHooks.
Import ListNotations.

(* ================================================================ induction over programs *)
Section HitemInd.
  Variable P : hitem -> Prop.
  Hypothesis Hop : forall o, P (HOp o).
  Hypothesis Hc : forall k, P (HAddCommit k).
  Hypothesis Hp : forall k pk, P (HAddPre k pk).
  Hypothesis Hn : forall b body, Forall P body -> P (HNest b body).
  Fixpoint hitem_ind' (it : hitem) : P it :=
    match it with
    | HOp o => Hop o
    | HAddCommit k => Hc k
    | HAddPre k pk => Hp k pk
    | HNest b body =>
        Hn b body ((fix go (l : list hitem) : Forall P l :=
                      match l with
                      | [] => Forall_nil P
                      | x :: r => Forall_cons x (hitem_ind' x) (go r)
                      end) body)
    end.
End HitemInd.

Lemma run_item_nest sch fuel oc bt body b :
  run_item sch fuel oc (HNest bt body) b = run_items sch fuel oc body b.
Proof. reflexivity. Qed.

Lemma item_ops_nest bt body : item_ops (HNest bt body) = body_ops body.
Proof. reflexivity. Qed.
Lemma item_commits_nest bt body : item_commits (HNest bt body) = body_commits body.
Proof. reflexivity. Qed.
Lemma item_pres_nest bt body : item_pres (HNest bt body) = body_pres body.
Proof. reflexivity. Qed.
Lemma flatten_item_nest bt body : flatten_item (HNest bt body) = flatten body.
Proof. reflexivity. Qed.

Lemma flat_map_app' {A B} (f : A -> list B) (l1 l2 : list A) : flat_map f (l1 ++ l2) = flat_map f l1 ++ flat_map f l2.
Proof. induction l1 as [|x l1 IH]; [reflexivity|]. cbn [app flat_map]. rewrite IH, app_assoc. reflexivity. Qed.

(* ================================================================ the body against the machine *)
Lemma run_ops_v_app sch fuel oc : forall a b stev acc,
  run_ops_v sch fuel oc stev (a ++ b) acc =
  let (rs1, fin1) := run_ops_v sch fuel oc stev a acc in
  match fin1 with
  | Ok (stev1, acc1) => let (rs2, fin2) := run_ops_v sch fuel oc stev1 b acc1 in (rs1 ++ rs2, fin2)
  | Err k => (rs1, Err k)
  end.
Proof.
  induction a as [|o a IH]; intros b stev acc; cbn [app run_ops_v].
  - destruct (run_ops_v sch fuel oc stev b acc) as [rs2 fin2]. reflexivity.
  - destruct (run_op sch fuel oc stev o) as [stev1|k]; [|reflexivity].
    rewrite IH. destruct (run_ops_v sch fuel oc stev1 a _) as [rs1 fin1]. destruct fin1 as [[stev2 acc2]|k]; [|reflexivity].
    destruct (run_ops_v sch fuel oc stev2 b acc2) as [rs2 fin2]. reflexivity.
Qed.

Lemma run_ops_v_ok_results sch fuel oc : forall ops stev acc rs x,
  run_ops_v sch fuel oc stev ops acc = (rs, Ok x) -> forall r, In r rs -> r = None.
Proof.
  induction ops as [|o ops IH]; intros stev acc rs x H r Hin; cbn [run_ops_v] in H.
  - inversion H; subst. destruct Hin.
  - destruct (run_op sch fuel oc stev o) as [stev1|k]; [|discriminate].
    destruct (run_ops_v sch fuel oc stev1 ops _) as [rs1 fin1] eqn:E. inversion H; subst.
    destruct Hin as [<-|Hin]; [reflexivity|]. eapply IH; eassumption.
Qed.

(* the state a body leaves behind when it ran to its end: the context gained the registrations, the
   OnCommit handlers are those it started with *)
Definition after (b : bstate) (pres : list (nat * pre_kind)) (commits : list nat) (stev : st_ev) (sevs : list sevent)
    (rs : list (option ekind)) : bstate :=
  mkB (mkMctx (mc_pre (b_ctx b) ++ pres) (mc_commit (b_ctx b) ++ commits)) stev sevs (b_rs b ++ rs) (b_on_commit b).

Section Body.
  Variable sch : schema.
  Variable fuel : nat.
  Variable oc : octx.

  Definition item_spec (it : hitem) : Prop := forall b,
    let '(rs, fin) := run_ops_v sch fuel oc (b_stev b) (item_ops it) (b_sevs b) in
    match fin with
    | Ok (stev', sevs') => run_item sch fuel oc it b = (after b (item_pres it) (item_commits it) stev' sevs' rs, true)
    | Err _ => exists b1, run_item sch fuel oc it b = (b1, false) /\ b_rs b1 = b_rs b ++ rs
    end.

  Definition items_spec (l : list hitem) : Prop := forall b,
    let '(rs, fin) := run_ops_v sch fuel oc (b_stev b) (body_ops l) (b_sevs b) in
    match fin with
    | Ok (stev', sevs') => run_items sch fuel oc l b = (after b (body_pres l) (body_commits l) stev' sevs' rs, true)
    | Err _ => exists b1, run_items sch fuel oc l b = (b1, false) /\ b_rs b1 = b_rs b ++ rs
    end.

  Lemma after_nil b : after b [] [] (b_stev b) (b_sevs b) [] = b.
  Proof. destruct b as [[pre com] stev sevs rs hs]. unfold after. cbn. rewrite !app_nil_r. reflexivity. Qed.

  Lemma items_of_item l : Forall item_spec l -> items_spec l.
  Proof.
    induction 1 as [|x r Hx _ IH]; intros b.
    - cbn. rewrite after_nil. reflexivity.
    - unfold body_ops, body_pres, body_commits. cbn [flat_map]. fold (body_ops r) (body_pres r) (body_commits r).
      rewrite run_ops_v_app. specialize (Hx b).
      destruct (run_ops_v sch fuel oc (b_stev b) (item_ops x) (b_sevs b)) as [rs1 fin1].
      destruct fin1 as [[stev1 acc1]|k].
      + cbn [run_items]. rewrite Hx.
        specialize (IH (after b (item_pres x) (item_commits x) stev1 acc1 rs1)). cbn [after b_stev b_sevs] in IH.
        destruct (run_ops_v sch fuel oc stev1 (body_ops r) acc1) as [rs2 fin2].
        destruct fin2 as [[stev2 acc2]|k].
        * rewrite IH. unfold after. cbn. rewrite !app_assoc. reflexivity.
        * destruct IH as [b1 [E R]]. exists b1. split; [exact E|]. rewrite R. cbn. rewrite app_assoc. reflexivity.
      + destruct Hx as [b1 [E R]]. exists b1. cbn [run_items]. rewrite E. split; [reflexivity|exact R].
  Qed.

  Lemma item_spec_all : forall it, item_spec it.
  Proof.
    induction it as [o|k|k pk|bt body IH] using hitem_ind'; intros b.
    - cbn [item_ops run_ops_v run_item]. unfold run_hop.
      destruct (run_op sch fuel oc (b_stev b) o) as [stev1|k].
      + unfold after. cbn. rewrite !app_nil_r. destruct (b_ctx b). reflexivity.
      + eexists. split; reflexivity.
    - cbn. unfold after, add_commit. cbn. rewrite !app_nil_r. reflexivity.
    - cbn. unfold after, add_pre. cbn. rewrite !app_nil_r. reflexivity.
    - rewrite item_ops_nest, item_pres_nest, item_commits_nest, run_item_nest. exact (items_of_item body IH b).
  Qed.

  Lemma items_spec_all : forall l, items_spec l.
  Proof. intros l. apply items_of_item. apply Forall_forall. intros it _. apply item_spec_all. Qed.
End Body.

(* ================================================================ runPreCommitActions *)
Lemma run_pre_ok : forall l commits runs, existsb pre_fails l = false ->
  run_pre l commits runs = (commits ++ pre_added l, runs ++ map fst l, true).
Proof.
  induction l as [|[k pk] l IH]; intros commits runs H; cbn [run_pre pre_added map fst].
  - rewrite !app_nil_r. reflexivity.
  - cbn [existsb] in H. apply orb_false_elim in H as [Hk H]. destruct pk as [| |j]; cbn in Hk; [|discriminate|].
    + rewrite IH by exact H. rewrite <- app_assoc. reflexivity.
    + rewrite IH by exact H. rewrite <- !app_assoc. reflexivity.
Qed.

Lemma run_pre_fail : forall l commits runs, existsb pre_fails l = true -> snd (run_pre l commits runs) = false.
Proof.
  induction l as [|[k pk] l IH]; intros commits runs H; [discriminate|].
  cbn [existsb] in H. destruct pk as [| |j]; cbn [run_pre]; [|reflexivity|]; cbn in H; apply IH; exact H.
Qed.

(* ================================================================ Db.Update / Db.Batch *)
Lemma db_update_spec sch fuel st sys vetoes ctx0 body :
  let '(rs, fin) := run_ops_v sch fuel (mkOctx sys vetoes) (st, []) (body_ops body) [] in
  db_update sch fuel st sys vetoes ctx0 body =
  match fin with
  | Ok ((st', _), sevs) =>
      let '(commits, runs, pok) := run_pre (registered_pres ctx0 body) (mc_commit ctx0 ++ body_commits body) [] in
      if pok then mkHookObs rs true st' sevs (fire_commit_actions commits [HdlCommitActions; HdlTxComplete]) runs
                            (fire_tx_complete [HdlCommitActions; HdlTxComplete])
      else mkHookObs rs false st [] [] runs 0
  | Err _ => mkHookObs rs false st [] [] [] 0
  end.
Proof.
  unfold db_update.
  pose proof (items_spec_all sch fuel (mkOctx sys vetoes) body (mkB ctx0 (st, []) [] [] [HdlCommitActions])) as H.
  cbn [b_stev b_sevs] in H.
  destruct (run_ops_v sch fuel (mkOctx sys vetoes) (st, []) (body_ops body) []) as [rs fin].
  destruct fin as [[[st' evs] sevs]|k].
  - rewrite H. unfold after, registered_pres. cbn.
    destruct (run_pre (mc_pre ctx0 ++ body_pres body) (mc_commit ctx0 ++ body_commits body) []) as [[commits runs] pok].
    destruct pok; reflexivity.
  - destruct H as [b1 [E R]]. rewrite E, R. reflexivity.
Qed.

(* the program delivers exactly what the plain instrumented machine delivers for its operations *)
Lemma db_update_refines_lemma sch fuel st sys vetoes ctx0 body :
  let o := db_update sch fuel st sys vetoes ctx0 body in
  let v := run_tx_v sch fuel st (hook_tx sys vetoes ctx0 body) in
  ho_results o = to_results v /\ ho_committed o = to_committed v /\ ho_state o = to_state v /\ ho_events o = to_events v.
Proof.
  cbn zeta. pose proof (db_update_spec sch fuel st sys vetoes ctx0 body) as H.
  unfold run_tx_v, hook_tx. cbn [tx_sys tx_vetoes tx_ops tx_precommit_fails].
  destruct (run_ops_v sch fuel (mkOctx sys vetoes) (st, []) (body_ops body) []) as [rs fin].
  rewrite H. destruct fin as [[[st' evs] sevs]|k]; [|cbn; repeat split; reflexivity].
  destruct (existsb pre_fails (registered_pres ctx0 body)) eqn:E.
  - pose proof (run_pre_fail _ (mc_commit ctx0 ++ body_commits body) [] E) as F.
    destruct (run_pre (registered_pres ctx0 body) (mc_commit ctx0 ++ body_commits body) []) as [[commits runs] pok].
    cbn in F. subst pok. cbn. repeat split; reflexivity.
  - rewrite run_pre_ok by exact E. cbn. repeat split; reflexivity.
Qed.

(* exactly once: on commit the executions ARE the registrations (as lists: each registration once, in
   order); nothing after a rollback; no pre-commit action when the body failed *)
Lemma hooks_exactly_once_lemma sch fuel st sys vetoes ctx0 body :
  let o := db_update sch fuel st sys vetoes ctx0 body in
  (ho_committed o = true ->
     ho_commit_runs o = registered_commits ctx0 body /\
     ho_pre_runs o = map fst (registered_pres ctx0 body) /\
     ho_tc o = 1%nat) /\
  (ho_committed o = false ->
     ho_commit_runs o = [] /\ ho_tc o = 0%nat /\ ho_events o = [] /\ ho_state o = st) /\
  (forall k, In (Some k) (ho_results o) -> ho_committed o = false /\ ho_pre_runs o = []).
Proof.
  cbn zeta. pose proof (db_update_spec sch fuel st sys vetoes ctx0 body) as H.
  destruct (run_ops_v sch fuel (mkOctx sys vetoes) (st, []) (body_ops body) []) as [rs fin] eqn:Ev.
  rewrite H. destruct fin as [[[st' evs] sevs]|k].
  - destruct (existsb pre_fails (registered_pres ctx0 body)) eqn:E.
    + pose proof (run_pre_fail _ (mc_commit ctx0 ++ body_commits body) [] E) as F.
      destruct (run_pre (registered_pres ctx0 body) (mc_commit ctx0 ++ body_commits body) []) as [[commits runs] pok].
      cbn in F. subst pok. cbn. split; [discriminate|]. split; [repeat split; reflexivity|].
      intros k Hin. apply (run_ops_v_ok_results _ _ _ _ _ _ _ _ Ev) in Hin. discriminate.
    + rewrite run_pre_ok by exact E. cbn. split; [|split; [discriminate|]].
      * intros _. unfold registered_commits. rewrite !app_nil_r. repeat split; reflexivity.
      * intros k Hin. apply (run_ops_v_ok_results _ _ _ _ _ _ _ _ Ev) in Hin. discriminate.
  - cbn. split; [discriminate|]. split; [repeat split; reflexivity|]. intros; split; reflexivity.
Qed.

(* with one label per registration every action runs exactly once *)
Lemma hooks_count_once_lemma sch fuel st sys vetoes ctx0 body :
  let o := db_update sch fuel st sys vetoes ctx0 body in
  ho_committed o = true ->
  (NoDup (registered_commits ctx0 body) ->
   forall k, In k (registered_commits ctx0 body) -> count_occ Nat.eq_dec (ho_commit_runs o) k = 1%nat) /\
  (NoDup (map fst (registered_pres ctx0 body)) ->
   forall k, In k (map fst (registered_pres ctx0 body)) -> count_occ Nat.eq_dec (ho_pre_runs o) k = 1%nat) /\
  (forall k, ~ In k (registered_commits ctx0 body) -> count_occ Nat.eq_dec (ho_commit_runs o) k = 0%nat).
Proof.
  cbn zeta. intros Hc. destruct (hooks_exactly_once_lemma sch fuel st sys vetoes ctx0 body) as [H _].
  destruct (H Hc) as [-> [-> _]]. repeat split.
  - intros Hn k Hin. apply NoDup_count_occ'; assumption.
  - intros Hn k Hin. apply NoDup_count_occ'; assumption.
  - intros k Hin. apply count_occ_not_In. exact Hin.
Qed.

(* ================================================================ nested joins are transparent *)
Lemma flatten_ops : forall l, body_ops (flatten l) = body_ops l.
Proof.
  assert (I : forall it, body_ops (flatten_item it) = item_ops it).
  { induction it as [o|k|k pk|bt body IH] using hitem_ind'; try reflexivity.
    rewrite flatten_item_nest, item_ops_nest. induction IH as [|x r Hx _ IHr]; [reflexivity|].
    unfold flatten, body_ops in *. cbn [flat_map]. rewrite flat_map_app', Hx, IHr. reflexivity. }
  induction l as [|x r IH]; [reflexivity|]. unfold flatten, body_ops in *. cbn [flat_map]. rewrite flat_map_app', I, IH. reflexivity.
Qed.

Lemma flatten_commits : forall l, body_commits (flatten l) = body_commits l.
Proof.
  assert (I : forall it, body_commits (flatten_item it) = item_commits it).
  { induction it as [o|k|k pk|bt body IH] using hitem_ind'; try reflexivity.
    rewrite flatten_item_nest, item_commits_nest. induction IH as [|x r Hx _ IHr]; [reflexivity|].
    unfold flatten, body_commits in *. cbn [flat_map]. rewrite flat_map_app', Hx, IHr. reflexivity. }
  induction l as [|x r IH]; [reflexivity|]. unfold flatten, body_commits in *. cbn [flat_map]. rewrite flat_map_app', I, IH. reflexivity.
Qed.

Lemma flatten_pres : forall l, body_pres (flatten l) = body_pres l.
Proof.
  assert (I : forall it, body_pres (flatten_item it) = item_pres it).
  { induction it as [o|k|k pk|bt body IH] using hitem_ind'; try reflexivity.
    rewrite flatten_item_nest, item_pres_nest. induction IH as [|x r Hx _ IHr]; [reflexivity|].
    unfold flatten, body_pres in *. cbn [flat_map]. rewrite flat_map_app', Hx, IHr. reflexivity. }
  induction l as [|x r IH]; [reflexivity|]. unfold flatten, body_pres in *. cbn [flat_map]. rewrite flat_map_app', I, IH. reflexivity.
Qed.

Fixpoint nest_free (l : list hitem) : bool :=
  match l with
  | [] => true
  | HNest _ _ :: _ => false
  | _ :: r => nest_free r
  end.

Lemma flatten_nest_free : forall l, nest_free (flatten l) = true.
Proof.
  assert (A : forall a b, nest_free a = true -> nest_free b = true -> nest_free (a ++ b) = true).
  { induction a as [|x a IH]; intros b Ha Hb; [exact Hb|]. destruct x; cbn in *; try (apply IH; assumption). discriminate. }
  assert (I : forall it, nest_free (flatten_item it) = true).
  { induction it as [o|k|k pk|bt body IH] using hitem_ind'; try reflexivity.
    rewrite flatten_item_nest. induction IH as [|x r Hx _ IHr]; [reflexivity|].
    unfold flatten in *. cbn [flat_map]. apply A; assumption. }
  induction l as [|x r IH]; [reflexivity|]. unfold flatten in *. cbn [flat_map]. apply A; [apply I|exact IH].
Qed.

(* a transaction whose function calls Db.Update / Db.Batch again with its own context (any depth)
   is observed exactly like the transaction that issues the same items directly *)
Lemma nested_join_transparent_lemma sch fuel st sys vetoes ctx0 body :
  db_update sch fuel st sys vetoes ctx0 body = db_update sch fuel st sys vetoes ctx0 (flatten body) /\
  nest_free (flatten body) = true.
Proof.
  split; [|apply flatten_nest_free].
  pose proof (db_update_spec sch fuel st sys vetoes ctx0 body) as H1.
  pose proof (db_update_spec sch fuel st sys vetoes ctx0 (flatten body)) as H2.
  unfold registered_pres in *. rewrite flatten_ops, flatten_commits, flatten_pres in H2.
  destruct (run_ops_v sch fuel (mkOctx sys vetoes) (st, []) (body_ops body) []) as [rs fin].
  rewrite H1, H2. reflexivity.
Qed.
