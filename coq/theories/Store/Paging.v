(* C15: paged, sorted and counted queries through a store of a parent/child family.
   Model only (proofs: Store/PagingProofs.v).  Store/Model.v is unchanged; this file adds, next to its
   [query_ids] (filter `true`, no paging),

   - a line-by-line transcription of the three scan loops of boltz/query_scanners.go
       [sorting_scan]   sortingScanner.ScanCursor      (QueryIds / QueryWithCursorC with a non-id sort)
       [unsorted_scan]  uniqueIndexScanner.ScanCursor  (QueryIds / QueryWithCursorC in id order)
       [cursor_scan]    uniqueIndexScanner.Next        (IterateIds with a paged query)
     over the ids of the ROOT store's entities bucket (a child store's GetEntitiesBucket is its parent's),
     each with the child-store test  IsChildStore && !IsEntityPresent && !IsExtended => skip the row
     BEFORE the row is counted, collected or offered to the result tree;
   - the specification [query_page]: the visible ([query_ids]) matching ids, sorted by (field value, id),
     then skip / limit, and count = number of visible matching ids.

   Filters: `true` and `<field> = "<string>"`; sort: one string field, ascending or descending, with the id
   as the final ascending key (BaseStore.newRowComparator appends it). *)
From Coq Require Import List NArith Bool Arith.
From Storage Require Import Base.Bytes Store.Model.
Import ListNotations.
Local Open Scope nat_scope.

Inductive qfilter := QTrue | QFieldEq (f : name) (v : str).

(* query.EvalBool(rowCursor): a nil / absent field equals no string *)
Definition q_match (sch : schema) (st : state) (s : name) (flt : qfilter) (i : id) : bool :=
  match flt with
  | QTrue => true
  | QFieldEq f v => match get_field sch st s i f with FStr w => str_eqb w v | _ => false end
  end.

(* negation of  isChildStore && !store.IsEntityPresent(tx, id) && !store.IsExtended()  - the predicate of [query_ids] *)
Definition q_visible (sch : schema) (st : state) (s : name) (i : id) : bool :=
  if is_child sch s && negb (is_ext sch s) then present sch st s i else true.

(* FieldToString(symbol.Eval(tx, id)) *)
Definition q_key (sch : schema) (st : state) (s : name) (f : name) (i : id) : option str :=
  match get_field sch st s i f with FStr w => Some w | _ => None end.

(* stringSymbolComparator.Compare (forward): nil before every string *)
Definition key_cmp (a b : option str) : comparison :=
  match a, b with
  | None, None => Eq
  | None, Some _ => Lt
  | Some _, None => Gt
  | Some x, Some y => str_cmp x y
  end.

Definition dir_cmp (asc : bool) (c : comparison) : comparison := if asc then c else CompOpp c.

(* rowComparatorImpl.Compare for the sort fields [f asc/desc ; id asc] *)
Definition row_cmp (sch : schema) (st : state) (s f : name) (asc : bool) (i j : id) : comparison :=
  match dir_cmp asc (key_cmp (q_key sch st s f i) (q_key sch st s f j)) with
  | Eq => str_cmp i j
  | c => c
  end.

Definition row_leb (sch : schema) (st : state) (s f : name) (asc : bool) (i j : id) : bool :=
  match row_cmp sch st s f asc i j with Gt => false | _ => true end.

(* llrb.Tree as the sorted list of its elements: Insert *)
Fixpoint ins (leb : id -> id -> bool) (x : id) (l : list id) : list id :=
  match l with
  | [] => [x]
  | y :: r => if leb x y then x :: l else y :: ins leb x r
  end.

(* maxResults := targetOffset + targetLimit ; limit none = math.MaxInt64 = unbounded *)
Definition max_results (skip : nat) (limit : option nat) : option nat :=
  match limit with None => None | Some l => Some (skip + l) end.

(* scanner.count > maxResults *)
Definition over (count : nat) (maxr : option nat) : bool :=
  match maxr with None => false | Some m => Nat.ltb m count end.

(* the loop of sortingScanner.ScanCursor; [removelast] = results.DeleteMax() *)
Fixpoint sorting_loop (vis mat : id -> bool) (leb : id -> id -> bool) (maxr : option nat)
    (ids : list id) (tree : list id) (count : nat) : list id * nat :=
  match ids with
  | [] => (tree, count)
  | i :: r =>
      if negb (vis i) then sorting_loop vis mat leb maxr r tree count
      else if mat i then
        let tree1 := ins leb i tree in
        let count1 := S count in
        sorting_loop vis mat leb maxr r (if over count1 maxr then removelast tree1 else tree1) count1
      else sorting_loop vis mat leb maxr r tree count
  end.

(* sortingScanner.ScanCursor: the first [skip] rows of the tree are passed over, the rest is the result *)
Definition sorting_scan (sch : schema) (st : state) (s : name) (flt : qfilter) (f : name) (asc : bool)
    (skip : nat) (limit : option nat) : list id * nat :=
  let (tree, count) :=
    sorting_loop (q_visible sch st s) (q_match sch st s flt) (row_leb sch st s f asc) (max_results skip limit)
                 (ids_of st (root_of sch s)) [] 0 in
  (skipn skip tree, count).

(* scanner.collected < scanner.targetLimit *)
Definition under (collected : nat) (limit : option nat) : bool :=
  match limit with None => true | Some l => Nat.ltb collected l end.

(* uniqueIndexScanner.ScanCursor with nextUnpaged inlined: every visible matching row is counted *)
Fixpoint unsorted_loop (vis mat : id -> bool) (skip : nat) (limit : option nat)
    (ids : list id) (offset collected count : nat) (acc : list id) : list id * nat :=
  match ids with
  | [] => (rev acc, count)
  | i :: r =>
      if negb (vis i) then unsorted_loop vis mat skip limit r offset collected count acc
      else if mat i then
        if Nat.ltb offset skip then unsorted_loop vis mat skip limit r (S offset) collected (S count) acc
        else if under collected limit then unsorted_loop vis mat skip limit r offset (S collected) (S count) (i :: acc)
        else unsorted_loop vis mat skip limit r offset collected (S count) acc
      else unsorted_loop vis mat skip limit r offset collected count acc
  end.

Definition unsorted_scan (sch : schema) (st : state) (s : name) (flt : qfilter) (skip : nat) (limit : option nat)
    : list id * nat :=
  unsorted_loop (q_visible sch st s) (q_match sch st s flt) skip limit (ids_of st (root_of sch s)) 0 0 0 [].

(* uniqueIndexScanner.Next, called until the cursor is invalid: the ids it stops at *)
Fixpoint cursor_loop (vis mat : id -> bool) (skip : nat) (limit : option nat)
    (ids : list id) (offset collected : nat) : list id :=
  match ids with
  | [] => []
  | i :: r =>
      if negb (under collected limit) then []
      else if negb (vis i) then cursor_loop vis mat skip limit r offset collected
      else if mat i then
        if Nat.ltb offset skip then cursor_loop vis mat skip limit r (S offset) collected
        else i :: cursor_loop vis mat skip limit r offset (S collected)
      else cursor_loop vis mat skip limit r offset collected
  end.

Definition cursor_scan (sch : schema) (st : state) (s : name) (flt : qfilter) (skip : nat) (limit : option nat) : list id :=
  cursor_loop (q_visible sch st s) (q_match sch st s flt) skip limit (ids_of st (root_of sch s)) 0 0.

(* ---------------------------------------------------------------- specification *)
(* the ids the store shows ([query_ids]) that satisfy the filter, in id order *)
Definition q_matching (sch : schema) (st : state) (s : name) (flt : qfilter) : list id :=
  filter (q_match sch st s flt) (query_ids sch st s).

Definition sort_ids (leb : id -> id -> bool) (l : list id) : list id :=
  fold_left (fun t x => ins leb x t) l [].

Definition page (skip : nat) (limit : option nat) (l : list id) : list id :=
  match limit with None => skipn skip l | Some n => firstn n (skipn skip l) end.

(* [srt] = None: id order ; Some (f, asc): by field f, then id *)
Definition query_page (sch : schema) (st : state) (s : name) (flt : qfilter) (srt : option (name * bool))
    (skip : nat) (limit : option nat) : list id * nat :=
  let m := q_matching sch st s flt in
  (page skip limit (match srt with None => m | Some (f, asc) => sort_ids (row_leb sch st s f asc) m end), length m).
