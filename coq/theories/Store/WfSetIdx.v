(* A boolean well-formedness check of a schema around a set index (s, f), and the proof that it
   implies the hypotheses of the set-index invariant theorems (Store/SetIdxProofs.v). *)
From Coq Require Import List NArith Bool Lia Arith.
From Storage Require Import Base.Bytes Base.BytesFacts Store.Model Store.AListFacts Store.WfSchema Store.SetIdxProofs.
Import ListNotations.

Definition is_setidx_on (f : name) (k : cons) : bool :=
  match k with CSetIdx f' => str_eqb f' f | _ => false end.

(* an fk index must not use the set f of (a store with root) s as its back-reference set *)
Definition backref_ok (sch : schema) (s f : name) (k : cons) : bool :=
  match k with
  | CFkIndex _ t b _ => negb (str_eqb (root_of sch t) s && str_eqb b f)
  | _ => true
  end.

(* a link collection of store [owner] must not use the set f of s on either side *)
Definition link_ok (sch : schema) (s f : name) (owner : name) (l : name * name * name) : bool :=
  match l with
  | (lf, os, of_) => negb (str_eqb (root_of sch owner) s && str_eqb lf f) &&
                     negb (str_eqb (root_of sch os) s && str_eqb of_ f)
  end.

(* s is a root store; store names are unique; parents are roots; among the stores with root s only s
   itself carries the set index on f, exactly once; f is neither a back-reference set nor a link field
   of root store s *)
Definition wf_setidx_b (sch : schema) (s f : name) : bool :=
  negb (is_child sch s) && nodupb (map sd_name sch) && wf_parents sch &&
  forallb (fun d => if str_eqb (root_of sch (sd_name d)) s && existsb (is_setidx_on f) (sd_cons d)
                    then str_eqb (sd_name d) s else true) sch &&
  Nat.eqb (length (filter (is_setidx_on f) (cons_of sch s))) 1 &&
  forallb (fun d => forallb (backref_ok sch s f) (sd_cons d)) sch &&
  forallb (fun d => forallb (link_ok sch s f (sd_name d)) (sd_links d)) sch.

Lemma is_setidx_on_spec f k : is_setidx_on f k = true <-> k = CSetIdx f.
Proof.
  destruct k; cbn; split; intros H; try discriminate.
  - apply str_eqb_eq in H. subst. reflexivity.
  - inversion H; subst. apply str_eqb_refl.
Qed.

Lemma nand_b (a a' b b' : name) : negb (str_eqb a a' && str_eqb b b') = true -> ~ (a = a' /\ b = b').
Proof.
  intros H [-> ->]. rewrite !str_eqb_refl in H. discriminate.
Qed.

Theorem wf_setidx_b_sound sch s f : wf_setidx_b sch s f = true ->
  is_child sch s = false /\
  (forall x, root_of sch (root_of sch x) = root_of sch x) /\
  (forall s', root_of sch s' = s -> In (CSetIdx f) (cons_of sch s') -> s' = s) /\
  (forall s' f0 t b nl, In (CFkIndex f0 t b nl) (cons_of sch s') -> ~ (root_of sch t = s /\ b = f)) /\
  (forall s' d lf os of_, find_store sch s' = Some d -> In (lf, os, of_) (sd_links d) ->
      ~ (root_of sch s' = s /\ lf = f) /\ ~ (root_of sch os = s /\ of_ = f)) /\
  (exists pre post, cons_of sch s = pre ++ CSetIdx f :: post /\ ~ In (CSetIdx f) pre /\ ~ In (CSetIdx f) post) /\
  (forall r0 d, In d (children_of sch r0) -> root_of sch (sd_name d) = r0).
Proof.
  unfold wf_setidx_b. intros H.
  apply andb_prop in H as [H H7]. apply andb_prop in H as [H H6]. apply andb_prop in H as [H H5].
  apply andb_prop in H as [H H4]. apply andb_prop in H as [H H3].
  apply andb_prop in H as [H1 H2]. apply negb_true_iff in H1.
  split; [exact H1|]. split; [|split; [|split; [|split; [|split]]]].
  - (* roots *)
    assert (Hnc : forall p, is_child sch p = false -> root_of sch p = p).
    { intros p Hp. unfold is_child in Hp. unfold root_of. destruct (find_store sch p) as [dp|]; [|reflexivity].
      destruct (sd_parent dp); [discriminate | reflexivity]. }
    intros x. destruct (find_store sch x) as [d|] eqn:Ef.
    + destruct (sd_parent d) as [p|] eqn:Ep.
      * assert (root_of sch x = p) as Hx by (unfold root_of; rewrite Ef, Ep; reflexivity).
        rewrite Hx. apply Hnc. destruct (find_store_in _ _ _ Ef) as [Hin _].
        unfold wf_parents in H3. rewrite forallb_forall in H3. specialize (H3 d Hin). rewrite Ep in H3.
        apply negb_true_iff in H3. exact H3.
      * assert (root_of sch x = x) as Hx by (unfold root_of; rewrite Ef, Ep; reflexivity).
        rewrite Hx. exact Hx.
    + assert (root_of sch x = x) as Hx by (unfold root_of; rewrite Ef; reflexivity).
      rewrite Hx. exact Hx.
  - (* own *)
    intros s' Hr Hin. unfold cons_of in Hin. destruct (find_store sch s') as [d|] eqn:Ef; [|contradiction].
    destruct (find_store_in _ _ _ Ef) as [Hd Hn]. rewrite forallb_forall in H4. specialize (H4 d Hd).
    rewrite Hn, Hr, str_eqb_refl in H4. cbn [andb] in H4.
    assert (existsb (is_setidx_on f) (sd_cons d) = true) as He.
    { apply existsb_exists. exists (CSetIdx f). split; [exact Hin | cbn; apply str_eqb_refl]. }
    rewrite He in H4. apply str_eqb_eq in H4. exact H4.
  - (* back-references *)
    intros s' f0 t b nl Hin. unfold cons_of in Hin. destruct (find_store sch s') as [d|] eqn:Ef; [|contradiction].
    destruct (find_store_in _ _ _ Ef) as [Hd _]. rewrite forallb_forall in H6. specialize (H6 d Hd).
    rewrite forallb_forall in H6. specialize (H6 _ Hin). cbn in H6. apply nand_b. exact H6.
  - (* links *)
    intros s' d lf os of_ Ef Hin. destruct (find_store_in _ _ _ Ef) as [Hd Hn].
    rewrite forallb_forall in H7. specialize (H7 d Hd). rewrite forallb_forall in H7. specialize (H7 _ Hin).
    cbn in H7. rewrite Hn in H7. apply andb_prop in H7 as [A B]. split; apply nand_b; assumption.
  - (* once *)
    apply Nat.eqb_eq in H5. destruct (filter_one_split _ _ H5) as [pre [x [post [Hc [Hx [Hpre Hpost]]]]]].
    apply is_setidx_on_spec in Hx. subst x. exists pre, post. split; [exact Hc|].
    rewrite Forall_forall in Hpre, Hpost.
    split; intros Hin; [specialize (Hpre _ Hin) | specialize (Hpost _ Hin)]; cbn in *; rewrite str_eqb_refl in *; discriminate.
  - (* children *)
    intros r0 d Hin. unfold children_of in Hin. apply filter_In in Hin as [Hin Hp].
    destruct (sd_parent d) as [p|] eqn:Ep; [|discriminate]. apply str_eqb_eq in Hp. subst p.
    unfold root_of. rewrite (find_store_nodup _ _ H2 Hin), Ep. reflexivity.
Qed.
