(* C06 - DeleteById (with child flows, constraint hooks, nested cascade deletes, link cleanup) preserves
   the invariant of Store/NoTraceInv.v and removes the entity; every hook removes the id from the places it
   is responsible for.  Template: Store/UniqueProofs.v. *)
From Coq Require Import List NArith Bool Lia.
From Storage Require Import Base.Bytes Base.BytesFacts Store.Model Store.AListFacts Store.FrameProofs
     Store.NoTrace Store.NoTraceFacts Store.NoTraceInv.
Import ListNotations.

Section Delete.
  Variable sch : schema.
  Hypothesis W : wfprops sch.

  Notation DInv := (DInv sch).
  Notation fbytes := (fbytes sch).

  Lemma isroot_root t : isroot sch t -> root_of sch t = t.
  Proof. intros [_ H]. exact H. Qed.

  (* ---- removing x from the string set b of entity ti of (the root store of) store t ---- *)
  Lemma DInv_backref_del_gen (G : gset) st t ti b x :
    (forall s0 f0, In (CSetIdx f0) (cons_of sch s0) -> root_of sch s0 = root_of sch t -> f0 <> b) ->
    (forall s f t1 nl, In (CFkIndex f t1 b nl) (cons_of sch s) -> root_of sch t1 = root_of sch t -> G (root_of sch s) x) ->
    (forall s0 lf os, In (lf, os, b) (links_of sch s0) -> root_of sch os = root_of sch t -> G (root_of sch s0) x) ->
    DInv G st -> DInv G (backref_del sch st t ti b x) /\ dmono st (backref_del sch st t ti b x).
  Proof.
    intros Hsi Hfk Hlk [HU [HS [HB [HF [HC HL]]]]].
    set (T := root_of sch t) in *.
    set (st' := backref_del sch st t ti b x).
    assert (Hp : forall s j, present sch st' s j = present sch st s j) by (intros; apply present_backref_del).
    assert (Hg : forall s j f, get_field sch st' s j f = get_field sch st s j f) by (intros; apply get_field_backref_del).
    assert (Hes : forall r j f z, In z (eset st' r j f) <-> In z (eset st r j f) /\ ~ (r = T /\ j = ti /\ f = b /\ z = x)).
    { intros. unfold st'. rewrite eset_backref_del. reflexivity. }
    split; [refine (conj _ (conj _ (conj _ (conj _ (conj _ _)))))|refine (conj _ (conj _ (conj _ _)))].
    - intros r f v x0 Hx. unfold st' in Hx. rewrite backref_del_uidx in Hx.
      destruct (HU r f v x0 Hx) as [s [nl [A [B [C [D E]]]]]]. exists s, nl. unfold NoTraceInv.fbytes in *. rewrite Hp, Hg. repeat split; assumption.
    - intros r f v x0 Hx. unfold sbucket, st' in Hx. rewrite backref_del_sidx in Hx.
      destruct (HS r f v x0 Hx) as [s0 [A0 [A [C B]]]]. exists s0. rewrite Hp. split; [exact A0|]. split; [exact A|]. split; [exact C|].
      apply Hes. split; [exact B|].
      intros [E [_ [Hf _]]]. apply (Hsi s0 f A); [congruence | exact Hf].
    - intros s f t0 b0 nl ti0 x0 Hin Hx. apply Hes in Hx as [Hx _]. unfold NoTraceInv.fbytes. rewrite Hp, Hg. apply (HB s f t0 b0 nl ti0 x0 Hin Hx).
    - intros s f t0 b0 nl y v Hin Hgn Hpy Hf Hn. rewrite Hp in Hpy. rewrite Hg in Hf.
      destruct (HF s f t0 b0 nl y v Hin Hgn Hpy Hf Hn) as [A B]. rewrite Hp. split; [|exact B]. apply Hes. split.
      + exact A.
      + intros [E1 [_ [-> ->]]]. apply Hgn. eapply Hfk; [exact Hin | exact E1].
    - intros s f t0 nl y v Hin Hgn Hpy Hf Hn. rewrite Hp in Hpy. rewrite Hg in Hf. rewrite Hp.
      apply (HC s f t0 nl y v Hin Hgn Hpy Hf Hn).
    - intros s lf os of_ x0 t0 Hin Hgn Ht0. apply Hes in Ht0 as [Ht0 _].
      destruct (HL s lf os of_ x0 t0 Hin Hgn Ht0) as [A [B C]]. rewrite !Hp. split; [|split; assumption].
      apply Hes. split; [exact A|]. intros [E1 [-> [-> ->]]]. apply Hgn. eapply Hlk; [exact Hin | exact E1].
    - intros r f v x0 Hx. unfold st' in Hx. rewrite backref_del_uidx in Hx. exact Hx.
    - intros r f v x0 Hx. unfold sbucket, st' in Hx. rewrite backref_del_sidx in Hx. exact Hx.
    - intros r j f z Hz. apply Hes in Hz as [Hz _]. exact Hz.
    - apply ents_fc_eq_shrink. apply backref_del_fc.
  Qed.

  (* ---- what each delete hook guarantees about the id x of root store R, once it has run ---- *)
  Definition CleanK (G : gset) (st : state) (s : name) (x : id) (k : cons) : Prop :=
    match k with
    | CUnique f _ => forall v, al_get v (uidx st (root_of sch s) f) <> Some x
    | CSetIdx f => forall v, ~ In x (sbucket st (root_of sch s) f v)
    | CFkIndex f t b _ => forall ti, ~ In x (eset st (root_of sch t) ti b)
    | CFkRestrict b => forall s' f nl y, In (CFkIndex f s b nl) (cons_of sch s') -> ~ G (root_of sch s') y -> nonempty x = true ->
                          present sch st s' y = true -> get_field sch st s' y f <> FStr x
    | CFkCascade rs f _ => forall y, ~ G (root_of sch rs) y -> present sch st rs y = true -> get_field sch st rs y f <> FStr x
    | _ => True
    end.

  Definition CleanL (G : gset) (st : state) (x : id) (l : name * name * name) : Prop :=
    match l with (lf, os, of_) => forall t, ~ G (root_of sch os) t -> ~ In x (eset st (root_of sch os) t of_) end.

  Lemma CleanK_mono G st st' s x k : dmono st st' -> CleanK G st s x k -> CleanK G st' s x k.
  Proof.
    intros Hm. pose proof Hm as [M1 [M2 [M3 M4]]]. destruct k as [f nl|f|f t b nl|b|f t nl|rs f cs|]; cbn [CleanK]; intros H; try exact I.
    - intros v Hv. apply (H v). apply M1. exact Hv.
    - intros v Hv. apply (H v). apply M2. exact Hv.
    - intros ti Hv. apply (H ti). apply M3. exact Hv.
    - intros s' f nl y Hin Hg Hne Hp Hf. apply (H s' f nl y Hin Hg Hne).
      + eapply dmono_present; eauto.
      + rewrite <- Hf. symmetry. apply dmono_get_field; assumption.
    - intros y Hg Hp Hf. apply (H y Hg).
      + eapply dmono_present; eauto.
      + rewrite <- Hf. symmetry. apply dmono_get_field; assumption.
  Qed.

  Lemma CleanL_mono G st st' x l : dmono st st' -> CleanL G st x l -> CleanL G st' x l.
  Proof.
    intros [_ [_ [M3 _]]]. destruct l as [[lf os] of_]. cbn. intros H t Hg Ht. apply (H t Hg). apply M3. exact Ht.
  Qed.

  (* ---- the recursive DeleteById used by the cascade constraint ---- *)
  Definition DelSpec (del : st_ev -> name -> id -> res st_ev) : Prop :=
    forall (G : gset) stev s0 x stev', DInv G (fst stev) -> del stev s0 x = Ok stev' ->
      DInv G (fst stev') /\ dmono (fst stev) (fst stev') /\ get_ent (fst stev') (root_of sch s0) x = None.

  Lemma cascade_loop_spec (G : gset) del rs f x : DelSpec del -> forall cands cur cur',
    DInv G (fst cur) -> cascade_loop sch del rs f x cands cur = Ok cur' ->
    DInv G (fst cur') /\ dmono (fst cur) (fst cur') /\
    (forall c, In c cands -> present sch (fst cur') rs c = true -> get_field sch (fst cur') rs c f <> FStr x).
  Proof.
    intros Hdel. induction cands as [|c0 cands IH]; intros cur cur' HD H; cbn [cascade_loop] in H.
    - inversion H; subst. split; [exact HD|]. split; [apply dmono_refl|]. intros c [].
    - destruct (casc_matches sch rs f x (fst cur) c0) eqn:Em.
      + destruct (del cur rs c0) as [cur1|e] eqn:Ed; cbn [bind] in H; [|discriminate].
        destruct (Hdel G cur rs c0 cur1 HD Ed) as [HD1 [Hm1 Hgone]].
        destruct (IH cur1 cur' HD1 H) as [HD2 [Hm2 Hc]].
        split; [exact HD2|]. split; [eapply dmono_trans; eauto|].
        intros c [<-|Hin]; [|apply Hc; exact Hin].
        intros Hp. exfalso. apply (dmono_present sch _ _ _ _ Hm2) in Hp. apply present_get_ent in Hp. congruence.
      + destruct (IH cur cur' HD H) as [HD2 [Hm2 Hc]].
        split; [exact HD2|]. split; [exact Hm2|].
        intros c [<-|Hin]; [|apply Hc; exact Hin].
        intros Hp Hf. pose proof (dmono_present sch _ _ _ _ Hm2 Hp) as Hp0.
        rewrite (dmono_get_field sch _ _ _ _ f Hm2 Hp) in Hf.
        unfold casc_matches in Em. rewrite Hp0, Hf, str_eqb_refl in Em. discriminate.
  Qed.

  Lemma ids_of_present st r y : get_ent st r y <> None -> In y (ids_of st r).
  Proof. unfold ids_of, get_ent. apply al_get_keys. Qed.

  Variable oc : octx.

  (* one before-delete hook of store s on entity x *)
  Lemma bd_one (G : gset) del st evs c k st' evs' :
    let s := ic_store c in let x := ic_id c in
    DelSpec del -> DInv G st -> G (root_of sch s) x -> In k (cons_of sch s) ->
    before_delete_one sch oc del (st, evs) c k = Ok (st', evs') ->
    DInv G st' /\ dmono st st' /\ CleanK G st' s x k.
  Proof.
    intros s x Hdel HD HG Hin H. pose proof HD as [HU [HS [HB [HF [HC HL]]]]].
    destruct k as [f nl|f|f t b nl|b|f t nl|rs f cs|]; cbn [before_delete_one] in H; fold s x in H.
    - (* CUnique *)
      set (r := root_of sch s) in *. set (v := fv_bytes (get_field sch st s x f)) in *.
      assert (Hclean : forall st1, uidx st1 r f = (if nonempty v then al_del v (uidx st r f) else uidx st r f) ->
                 forall w, al_get w (uidx st1 r f) <> Some x).
      { intros st1 E w Hw. rewrite E in Hw.
        assert (al_get w (uidx st r f) = Some x /\ (nonempty v = true -> w <> v)) as [Hw0 Hne].
        { destruct (nonempty v) eqn:En.
          - rewrite al_get_del in Hw. destruct (str_eqb v w) eqn:Ev; [discriminate|]. apply str_eqb_neq in Ev.
            split; [exact Hw | intros _; congruence].
          - split; [exact Hw | discriminate]. }
        destruct (HU r f w x Hw0) as [s1 [nl1 [A [B [C [D E1]]]]]].
        assert (s1 = s) as -> by (eapply (wp_uown sch W); [exact A | exact B | exact Hin]).
        unfold NoTraceInv.fbytes in E1. fold v in E1. rewrite E1 in Hne. apply Hne; [exact C | reflexivity]. }
      destruct (nonempty v) eqn:En.
      + inversion H; subst st' evs'. clear H.
        destruct (DInv_uidx_shrink sch G st (set_uidx st r f (al_del v (uidx st r f)))) as [A B]; try reflexivity; [|exact HD|].
        * intros r0 f0 w x0 Hw. cbn in Hw. unfold upd2 in Hw. destruct (str_eqb r r0 && str_eqb f f0) eqn:Eb; [|exact Hw].
          apply andb_prop in Eb as [E1 E2]. apply str_eqb_eq in E1, E2. subst r0 f0.
          rewrite al_get_del in Hw. destruct (str_eqb v w); [discriminate | exact Hw].
        * split; [exact A|]. split; [exact B|]. cbn [CleanK]. fold r. apply Hclean. rewrite uidx_set_uidx. reflexivity.
      + inversion H; subst st' evs'. clear H. split; [exact HD|]. split; [apply dmono_refl|].
        cbn [CleanK]. fold r. apply Hclean. reflexivity.
    - (* CSetIdx *)
      destruct (negb _); [discriminate|]. inversion H; subst st' evs'. clear H.
      set (r := root_of sch s). set (vals := get_set sch st s x f).
      assert (Hvals : vals = eset st r x f) by (unfold vals, get_set, eset; reflexivity).
      destruct (DInv_sidx_shrink sch G st (fold_left (fun acc v => sidx_remove acc r f v x) vals st)) as [A B]; [| | |exact HD|].
      + apply fold_sidx_remove_ents.
      + apply fold_sidx_remove_uidx.
      + intros r0 f0 v0 x0 Hx. apply sbucket_fold_remove in Hx as [Hx _]. exact Hx.
      + split; [exact A|]. split; [exact B|]. cbn [CleanK]. fold r. intros v0 Hx. apply sbucket_fold_remove in Hx as [Hx Hn].
        apply Hn. repeat split. rewrite Hvals. destruct (HS r f v0 x Hx) as [_ [_ [_ [_ Q]]]]. exact Q.
    - (* CFkIndex *)
      set (v := fv_bytes (get_field sch st s x f)) in *.
      assert (Hclean : forall st1, (forall ti, In x (eset st1 (root_of sch t) ti b) -> In x (eset st (root_of sch t) ti b) /\ (nonempty v = true -> ti <> v)) ->
                 forall ti, ~ In x (eset st1 (root_of sch t) ti b)).
      { intros st1 E ti Hx. destruct (E ti Hx) as [Hx0 Hne].
        destruct (HB s f t b nl ti x Hin Hx0) as [A [_ C]]. unfold NoTraceInv.fbytes in C. fold v in C.
        apply Hne; [rewrite C; exact A | symmetry; exact C]. }
      destruct (nonempty v) eqn:En.
      + destruct (present sch st t v); [|discriminate]. inversion H; subst st' evs'. clear H.
        destruct (DInv_backref_del_gen G st t v b x) as [A B]; [| | |exact HD|].
        * intros s0 f0 Hf0 Hr0. eapply (wp_disj_sb sch W); [exact Hf0 | exact Hin | symmetry; exact Hr0].
        * intros s1 f1 t1 nl1 Hin1 Hr1. destruct (wp_buniq sch W _ _ _ _ _ _ _ _ _ Hin1 Hin Hr1) as [-> _]. exact HG.
        * intros s0 lf os Hl Hro. exfalso. apply (wp_link_sym sch W) in Hl. eapply (wp_disj_bl sch W); [exact Hin | exact Hl | exact Hro | reflexivity].
        * split; [exact A|]. split; [exact B|]. cbn [CleanK]. apply Hclean. intros ti Hx.
          apply eset_backref_del in Hx as [Hx Hn]. split; [exact Hx|]. intros _ ->. apply Hn. repeat split.
      + inversion H; subst st' evs'. clear H. split; [exact HD|]. split; [apply dmono_refl|].
        cbn [CleanK]. apply Hclean. intros ti Hx. split; [exact Hx | discriminate].
    - (* CFkRestrict *)
      destruct (get_set sch st s x b) eqn:Egs; [|discriminate]. inversion H; subst st' evs'. clear H.
      split; [exact HD|]. split; [apply dmono_refl|]. cbn [CleanK].
      intros s' f nl y Hin' Hg Hne Hp Hf.
      destruct (HF s' f s b nl y x Hin' Hg Hp Hf Hne) as [Hy _].
      unfold get_set in Egs. unfold eset in Hy. destruct (get_ent st (root_of sch s) x); [rewrite Egs in Hy|]; exact Hy.
    - (* CFkCons *)
      inversion H; subst st' evs'. split; [exact HD|]. split; [apply dmono_refl | exact I].
    - (* CFkCascade *)
      destruct cs.
      + destruct (existsb _ _) eqn:Eex; [discriminate|]. inversion H; subst st' evs'. clear H.
        split; [exact HD|]. split; [apply dmono_refl|]. cbn [CleanK]. intros y _ Hp Hf.
        assert (In y (ids_of st (root_of sch rs))) as Hy by (apply ids_of_present, present_get_ent; exact Hp).
        assert (casc_matches sch rs f x st y = true) as Hm.
        { unfold casc_matches. rewrite Hp, Hf, str_eqb_refl. reflexivity. }
        assert (existsb (casc_matches sch rs f x st) (ids_of st (root_of sch rs)) = true) as Hex
          by (apply existsb_exists; exists y; split; assumption).
        congruence.
      + destruct (cascade_loop_spec G del rs f x Hdel _ (st, evs) (st', evs') HD H) as [A [B C]].
        split; [exact A|]. split; [exact B|]. cbn [CleanK]. intros y _ Hp. cbn [fst] in *. apply C; [|exact Hp].
        apply ids_of_present. apply present_get_ent. eapply dmono_present; eauto.
    - (* CSystem *)
      assert (st' = st) as ->.
      { destruct (get_field sch st s x isSystemF) as [| |y|[|]]; try (inversion H; reflexivity).
        destruct (oc_sys oc); [inversion H; reflexivity | discriminate]. }
      split; [exact HD|]. split; [apply dmono_refl | exact I].
  Qed.

  Lemma bd_all (G : gset) del c : let s := ic_store c in let x := ic_id c in
    DelSpec del -> G (root_of sch s) x -> forall ks st evs st' evs',
    incl ks (cons_of sch s) -> DInv G st ->
    before_delete_all sch oc del (st, evs) c ks = Ok (st', evs') ->
    DInv G st' /\ dmono st st' /\ (forall k, In k ks -> CleanK G st' s x k).
  Proof.
    intros s x Hdel HG. induction ks as [|k ks IH]; intros st evs st' evs' Hincl HD H; cbn [before_delete_all] in H.
    - inversion H; subst. split; [exact HD|]. split; [apply dmono_refl|]. intros k [].
    - destruct (before_delete_one sch oc del (st, evs) c k) as [[st1 evs1]|e] eqn:E1; cbn [bind] in H; [|discriminate].
      assert (In k (cons_of sch s)) as Hin by (apply Hincl; left; reflexivity).
      destruct (bd_one G del st evs c k st1 evs1 Hdel HD HG Hin E1) as [HD1 [Hm1 Hc1]].
      assert (incl ks (cons_of sch s)) as Hincl' by (intros y Hy; apply Hincl; right; exact Hy).
      destruct (IH st1 evs1 st' evs' Hincl' HD1 H) as [HD2 [Hm2 Hc2]].
      split; [exact HD2|]. split; [eapply dmono_trans; eauto|].
      intros k0 [<-|Hk0]; [eapply CleanK_mono; eauto | apply Hc2; exact Hk0].
  Qed.

  Lemma bd_chain (G : gset) del x : DelSpec del -> forall ch st evs st' evs',
    (forall s' ks, In (s', ks) ch -> ks = cons_of sch s' /\ G (root_of sch s') x) -> DInv G st ->
    before_delete_chain sch oc del x ch (st, evs) = Ok (st', evs') ->
    DInv G st' /\ dmono st st' /\
    (forall s' ks, In (s', ks) ch -> forall k, In k (cons_of sch s') -> CleanK G st' s' x k).
  Proof.
    intros Hdel. induction ch as [|[s' ks] ch IH]; intros st evs st' evs' Hch HD H; cbn [before_delete_chain] in H.
    - inversion H; subst. split; [exact HD|]. split; [apply dmono_refl|]. intros s' ks [].
    - destruct (before_delete_all sch oc del (st, evs) _ ks) as [[st1 evs1]|e] eqn:E1; cbn [bind] in H; [|discriminate].
      destruct (Hch s' ks (or_introl eq_refl)) as [-> HGs].
      destruct (bd_all G del (mkIctx false (oc_sys oc) s' x) Hdel HGs _ st evs st1 evs1 (incl_refl _) HD E1) as [HD1 [Hm1 Hc1]].
      assert (forall s2 ks2, In (s2, ks2) ch -> ks2 = cons_of sch s2 /\ G (root_of sch s2) x) as Hch' by (intros; apply Hch; right; assumption).
      destruct (IH st1 evs1 st' evs' Hch' HD1 H) as [HD2 [Hm2 Hc2]].
      split; [exact HD2|]. split; [eapply dmono_trans; eauto|].
      intros s2 ks2 [Heq|Hin2] k Hk.
      + inversion Heq; subst s2 ks2. eapply CleanK_mono; [exact Hm2|]. apply (Hc1 k Hk).
      + eapply Hc2; eauto.
  Qed.

  (* ---- link cleanup ---- *)
  Lemma cleanup_inner (G : gset) s0 x lf os of_ : In (lf, os, of_) (links_of sch s0) -> G (root_of sch s0) x ->
    forall ts acc, DInv G acc ->
    let acc' := fold_left (fun acc2 oi => backref_del sch acc2 os oi of_ x) ts acc in
    DInv G acc' /\ dmono acc acc' /\
    (forall t', In x (eset acc' (root_of sch os) t' of_) -> In x (eset acc (root_of sch os) t' of_) /\ ~ In t' ts).
  Proof.
    intros Hl HG.
    pose proof (wp_link_sym sch W _ _ _ _ Hl) as Hsym.
    induction ts as [|t ts IH]; intros acc HD; cbn [fold_left].
    - split; [exact HD|]. split; [apply dmono_refl|]. intros t' H. split; [exact H | intros []].
    - destruct (DInv_backref_del_gen G acc os t of_ x) as [A B]; [| | |exact HD|].
      + intros s1 f0 Hf0 Hr0. eapply (wp_disj_sl sch W); [exact Hf0 | exact Hsym | symmetry; exact Hr0].
      + intros s1 f1 t1 nl1 Hin1 Hr1. exfalso. eapply (wp_disj_bl sch W); [exact Hin1 | exact Hsym | symmetry; exact Hr1 | reflexivity].
      + intros s1 lf1 os1 Hl1 Hro1. apply (wp_link_sym sch W) in Hl1.
        destruct (wp_link_uniq sch W _ _ _ _ _ _ _ Hl1 Hsym Hro1) as [_ [-> _]]. exact HG.
      + destruct (IH _ A) as [A2 [B2 C2]]. split; [exact A2|]. split; [eapply dmono_trans; eauto|].
        intros t' H. destruct (C2 t' H) as [H1 H2]. apply eset_backref_del in H1 as [H1 Hn]. split; [exact H1|].
        intros [<-|Hin]; [|exact (H2 Hin)]. apply Hn. repeat split.
  Qed.

  Lemma cleanup_links_spec (G : gset) st s0 x : G (root_of sch s0) x -> DInv G st ->
    DInv G (cleanup_links sch st s0 x) /\ dmono st (cleanup_links sch st s0 x) /\
    (forall l, In l (links_of sch s0) -> CleanL G (cleanup_links sch st s0 x) x l).
  Proof.
    intros HG HD. unfold cleanup_links, links_of. destruct (find_store sch s0) as [d|] eqn:Ef;
      [|split; [exact HD|]; split; [apply dmono_refl | intros l []]].
    assert (Hlinks : links_of sch s0 = sd_links d) by (unfold links_of; rewrite Ef; reflexivity).
    assert (Hgen : forall ls acc, incl ls (sd_links d) -> DInv G acc ->
      let acc' := fold_left (fun acc (l : name * name * name) =>
        match l with (lf, os, of_) => fold_left (fun acc2 oi => backref_del sch acc2 os oi of_ x) (get_set sch acc s0 x lf) acc end) ls acc in
      DInv G acc' /\ dmono acc acc' /\ (forall l, In l ls -> CleanL G acc' x l)).
    { induction ls as [|[[lf os] of_] ls IH]; intros acc Hincl HDa; cbn [fold_left].
      - split; [exact HDa|]. split; [apply dmono_refl | intros l []].
      - assert (In (lf, os, of_) (links_of sch s0)) as Hl by (rewrite Hlinks; apply Hincl; left; reflexivity).
        destruct (cleanup_inner G s0 x lf os of_ Hl HG (get_set sch acc s0 x lf) acc HDa) as [A [B C]].
        assert (incl ls (sd_links d)) as Hincl' by (intros y Hy; apply Hincl; right; exact Hy).
        destruct (IH _ Hincl' A) as [A2 [B2 C2]]. split; [exact A2|]. split; [eapply dmono_trans; eauto|].
        intros l [<-|Hin]; [|apply C2; exact Hin].
        eapply CleanL_mono; [exact B2|]. cbn [CleanL]. intros t' Hg Hx. destruct (C t' Hx) as [Hx0 Hnot]. apply Hnot.
        destruct HDa as [_ [_ [_ [_ [_ HL]]]]].
        destruct (HL os of_ s0 lf t' x (wp_link_sym sch W _ _ _ _ Hl) Hg Hx0) as [Ht _].
        unfold get_set. unfold eset in Ht. exact Ht. }
    destruct (Hgen (sd_links d) st (incl_refl _) HD) as [A [B C]]. split; [exact A|]. split; [exact B|]. exact C.
  Qed.

  Lemma chain_in s0 s' ks : In (s', ks) (chain sch s0) -> ks = cons_of sch s' /\ root_of sch s' = root_of sch s0.
  Proof.
    unfold chain. destruct (is_child sch s0) eqn:E; cbn; intros H.
    - destruct H as [H|[H|[]]]; inversion H; subst; split; auto. apply (wp_roots sch W).
    - destruct H as [H|[]]. inversion H; subst. split; reflexivity.
  Qed.

  Lemma chain_self s0 : In (s0, cons_of sch s0) (chain sch s0).
  Proof. unfold chain. destruct (is_child sch s0); cbn; auto. Qed.

  Lemma process_delete_spec (G : gset) del x s0 st evs st' evs' :
    DelSpec del -> G (root_of sch s0) x -> DInv G st ->
    process_delete sch oc del (st, evs) s0 x = Ok (st', evs') ->
    DInv G st' /\ dmono st st' /\
    (forall k, In k (cons_of sch s0) -> CleanK G st' s0 x k) /\
    (forall l, In l (links_of sch s0) -> CleanL G st' x l).
  Proof.
    intros Hdel HG HD H. unfold process_delete in H.
    destruct (before_delete_chain sch oc del x (chain sch s0) (st, evs)) as [[st1 evs1]|e] eqn:E1; cbn [bind] in H; [|discriminate].
    inversion H; subst st' evs'. clear H. cbn [fst snd].
    assert (forall s' ks, In (s', ks) (chain sch s0) -> ks = cons_of sch s' /\ G (root_of sch s') x) as Hch.
    { intros s' ks Hin. apply chain_in in Hin as [A B]. split; [exact A | rewrite B; exact HG]. }
    destruct (bd_chain G del x Hdel _ st evs st1 evs1 Hch HD E1) as [HD1 [Hm1 Hc1]].
    destruct (cleanup_links_spec G st1 s0 x HG HD1) as [HD2 [Hm2 Hc2]].
    split; [exact HD2|]. split; [eapply dmono_trans; eauto|]. split; [|exact Hc2].
    intros k Hk. eapply CleanK_mono; [exact Hm2|]. eapply Hc1; [apply chain_self | exact Hk].
  Qed.

  Lemma children_delete_spec (G : gset) del x r0 : DelSpec del -> G r0 x ->
    forall cs cur flows cur' flows',
    (forall d, In d cs -> root_of sch (sd_name d) = r0) -> DInv G (fst cur) ->
    children_delete sch oc del x cs cur flows = Ok (cur', flows') ->
    DInv G (fst cur') /\ dmono (fst cur) (fst cur') /\
    (forall d, In d cs -> present sch (fst cur') (sd_name d) x = true ->
               (forall k, In k (cons_of sch (sd_name d)) -> CleanK G (fst cur') (sd_name d) x k) /\
               (forall l, In l (links_of sch (sd_name d)) -> CleanL G (fst cur') x l)).
  Proof.
    intros Hdel HG. induction cs as [|d cs IH]; intros cur flows cur' flows' Hcs HD H; cbn [children_delete] in H.
    - inversion H; subst. split; [exact HD|]. split; [apply dmono_refl|]. intros d [].
    - assert (forall d0, In d0 cs -> root_of sch (sd_name d0) = r0) as Hcs' by (intros; apply Hcs; right; assumption).
      destruct (loadable sch (fst cur) (sd_name d) x) eqn:El.
      + destruct cur as [st evs].
        destruct (process_delete sch oc del (st, evs) (sd_name d) x) as [[st1 evs1]|e] eqn:E1; cbn [bind] in H; [|discriminate].
        assert (G (root_of sch (sd_name d)) x) as HG1 by (rewrite (Hcs d (or_introl eq_refl)); exact HG).
        destruct (process_delete_spec G del x _ st evs st1 evs1 Hdel HG1 HD E1) as [HD1 [Hm1 [Hc1 Hl1]]].
        destruct (IH (st1, evs1) _ cur' flows' Hcs' HD1 H) as [HD2 [Hm2 Hc2]]. cbn [fst] in *.
        split; [exact HD2|]. split; [eapply dmono_trans; eauto|].
        intros d0 [<-|Hin] Hp; [|eapply Hc2; eauto]. split.
        * intros k Hk. eapply CleanK_mono; [exact Hm2|]. apply Hc1. exact Hk.
        * intros l Hl. eapply CleanL_mono; [exact Hm2|]. apply Hl1. exact Hl.
      + destruct (IH cur _ cur' flows' Hcs' HD H) as [HD2 [Hm2 Hc2]].
        split; [exact HD2|]. split; [exact Hm2|].
        intros d0 [<-|Hin] Hp; [|eapply Hc2; eauto].
        exfalso. apply (dmono_present sch _ _ _ _ Hm2) in Hp. unfold loadable in El. rewrite Hp in El. discriminate.
  Qed.

  (* ---- removing the entity bucket ---- *)
  Lemma present_del_ent st R x s j : present sch (del_ent st R x) s j = true ->
    ~ (root_of sch s = R /\ j = x) /\ present sch st s j = true.
  Proof.
    unfold present. rewrite get_ent_del_ent. destruct (str_eqb R (root_of sch s) && str_eqb x j) eqn:Eb; [discriminate|].
    intros H. split; [|exact H]. intros [A B]. subst. rewrite !str_eqb_refl in Eb. discriminate.
  Qed.

  Lemma present_del_ent_other st R x s j : ~ (root_of sch s = R /\ j = x) ->
    present sch (del_ent st R x) s j = present sch st s j /\
    (forall f, get_field sch (del_ent st R x) s j f = get_field sch st s j f).
  Proof.
    intros Hn. unfold present, get_field. rewrite get_ent_del_ent.
    destruct (str_eqb R (root_of sch s) && str_eqb x j) eqn:Eb; [|split; reflexivity].
    apply andb_prop in Eb as [E1 E2]. apply str_eqb_eq in E1, E2. exfalso. apply Hn. split; congruence.
  Qed.

  Lemma eset_del_ent st R x r j f z :
    In z (eset (del_ent st R x) r j f) <-> In z (eset st r j f) /\ ~ (r = R /\ j = x).
  Proof.
    unfold eset. rewrite get_ent_del_ent. destruct (str_eqb R r && str_eqb x j) eqn:Eb.
    - apply andb_prop in Eb as [E1 E2]. apply str_eqb_eq in E1, E2. subst. split; [intros [] | intros [_ Hn]; apply Hn; split; reflexivity].
    - split; [|intros [H _]; exact H]. intros H. split; [exact H|]. intros [-> ->]. rewrite !str_eqb_refl in Eb. discriminate.
  Qed.

  Lemma present_of_ent st R x : isroot sch R -> get_ent st R x <> None -> present sch st R x = true.
  Proof. intros [Hc Hr] H. rewrite (present_root sch st R x Hc Hr). destruct (get_ent st R x); congruence. Qed.

  Lemma del_ent_spec (G : gset) st R x : isroot sch R ->
    (forall s', root_of sch s' = R -> present sch st s' x = true ->
                forall k, In k (cons_of sch s') -> CleanK (gadd G R x) st s' x k) ->
    (forall s', root_of sch s' = R -> present sch st s' x = true ->
                forall l, In l (links_of sch s') -> CleanL (gadd G R x) st x l) ->
    DInv (gadd G R x) st -> DInv G (del_ent st R x) /\ dmono st (del_ent st R x).
  Proof.
    intros HR HK HLk [HU [HS [HB [HF [HC HL]]]]]. pose proof HR as [HRc HRr].
    set (st' := del_ent st R x).
    assert (Hng : forall s y, ~ G s y -> ~ (s = R /\ y = x) -> ~ gadd G R x s y).
    { intros s y A B [C|C]; [exact (A C) | exact (B C)]. }
    split; [refine (conj _ (conj _ (conj _ (conj _ (conj _ _)))))|refine (conj _ (conj _ (conj _ _)))].
    - (* USound *)
      intros r f v j Hj. change (uidx st' r f) with (uidx st r f) in Hj.
      destruct (HU r f v j Hj) as [s [nl [A [B [C [D E]]]]]]. exists s, nl.
      assert (~ (root_of sch s = R /\ j = x)) as Hn.
      { intros [A1 ->]. exact (HK s A1 D _ B v ltac:(rewrite A1; rewrite <- A1, A; exact Hj)). }
      destruct (present_del_ent_other st R x s j Hn) as [P1 P2]. unfold NoTraceInv.fbytes in *. unfold st'. rewrite P1, P2.
      repeat split; assumption.
    - (* SSound *)
      intros r f v j Hj. change (sbucket st' r f v) with (sbucket st r f v) in Hj.
      destruct (HS r f v j Hj) as [s0 [A0 [A [C B]]]].
      assert (~ (root_of sch s0 = R /\ j = x)) as Hn.
      { intros [E ->]. subst r. exact (HK s0 E C _ A v Hj). }
      destruct (present_del_ent_other st R x s0 j Hn) as [P1 _]. fold st' in P1.
      exists s0. rewrite P1. split; [exact A0|]. split; [exact A|]. split; [exact C|].
      apply eset_del_ent. split; [exact B|]. rewrite <- A0. exact Hn.
    - (* BSound *)
      intros s f t b nl ti j Hin Hj. apply eset_del_ent in Hj as [Hj Hn].
      destruct (HB s f t b nl ti j Hin Hj) as [A [B C]].
      assert (~ (root_of sch s = R /\ j = x)) as Hn2.
      { intros [A1 ->]. exact (HK s A1 B _ Hin ti Hj). }
      destruct (present_del_ent_other st R x s j Hn2) as [P1 P2]. unfold NoTraceInv.fbytes in *. unfold st'. rewrite P1, P2.
      repeat split; assumption.
    - (* FSound *)
      intros s f t b nl y v Hin Hg Hp Hf Hne. apply present_del_ent in Hp as [Hn Hp].
      destruct (present_del_ent_other st R x s y Hn) as [_ P2]. fold st' in P2. rewrite P2 in Hf.
      assert (~ gadd G R x (root_of sch s) y) as Hg' by (apply Hng; [exact Hg | exact Hn]).
      destruct (HF s f t b nl y v Hin Hg' Hp Hf Hne) as [Hy Hpt].
      assert (~ (root_of sch t = R /\ v = x)) as Hnt.
      { intros [Hrt ->]. destruct (wp_fk_guard sch W s f t b nl Hin) as [Hr|[c Hc]].
        - exact (HK t Hrt Hpt _ Hr s f nl y Hin Hg' Hne Hp Hf).
        - exact (HK t Hrt Hpt _ Hc y Hg' Hp Hf). }
      destruct (present_del_ent_other st R x t v Hnt) as [P3 _]. fold st' in P3. rewrite P3. split; [|exact Hpt].
      apply eset_del_ent. split; [exact Hy | exact Hnt].
    - (* CSound *)
      intros s f t nl y v Hin Hg Hp Hf Hne. apply present_del_ent in Hp as [Hn Hp].
      destruct (present_del_ent_other st R x s y Hn) as [_ P2]. fold st' in P2. rewrite P2 in Hf.
      assert (~ gadd G R x (root_of sch s) y) as Hg' by (apply Hng; [exact Hg | exact Hn]).
      pose proof (HC s f t nl y v Hin Hg' Hp Hf Hne) as Hpt.
      assert (~ (root_of sch t = R /\ v = x)) as Hnt.
      { intros [Hrt ->]. destruct (wp_fc_guard sch W s f t nl Hin) as [c Hc].
        exact (HK t Hrt Hpt _ Hc y Hg' Hp Hf). }
      destruct (present_del_ent_other st R x t v Hnt) as [P3 _]. fold st' in P3. rewrite P3. exact Hpt.
    - (* LSound *)
      intros s lf os of_ i t Hin Hg Ht. apply eset_del_ent in Ht as [Ht Hn].
      assert (~ gadd G R x (root_of sch s) i) as Hg' by (apply Hng; assumption).
      destruct (HL s lf os of_ i t Hin Hg' Ht) as [Hi [Hpi Hpt]].
      pose proof (wp_link_sym sch W _ _ _ _ Hin) as Hsym.
      assert (~ (root_of sch os = R /\ t = x)) as Hnt.
      { intros [Hro ->]. exact (HLk os Hro Hpt _ Hsym i Hg' Ht). }
      assert (~ (root_of sch s = R /\ i = x)) as Hni by exact Hn.
      destruct (present_del_ent_other st R x s i Hni) as [P1 _]. destruct (present_del_ent_other st R x os t Hnt) as [P2 _].
      fold st' in P1, P2. rewrite P1, P2. split; [|split; assumption].
      apply eset_del_ent. split; [exact Hi|]. exact Hnt.
    - intros r f v j Hj. exact Hj.
    - intros r f v j Hj. exact Hj.
    - intros r j f z Hz. apply eset_del_ent in Hz as [Hz _]. exact Hz.
    - intros r j. unfold st'. rewrite get_ent_del_ent. destruct (str_eqb R r && str_eqb x j); [exact I|].
      destruct (get_ent st r j) as [e|]; [|exact I]. exists e. repeat split.
  Qed.

  Lemma child_decl s' r0 : root_of sch s' = r0 -> s' <> r0 -> exists d, In d (children_of sch r0) /\ sd_name d = s'.
  Proof.
    intros Hrs Hne. unfold root_of in Hrs. destruct (find_store sch s') as [d|] eqn:Ef; [|congruence].
    destruct (sd_parent d) as [p|] eqn:Ep; [|congruence]. subst p.
    assert (In d sch /\ sd_name d = s') as [Hin Hn].
    { clear - Ef. induction sch as [|d0 l IHl]; cbn in Ef; [discriminate|].
      destruct (str_eqb (sd_name d0) s') eqn:E.
      - inversion Ef; subst. apply str_eqb_eq in E. split; [left; reflexivity | exact E].
      - destruct (IHl Ef) as [A B]. split; [right; exact A | exact B]. }
    exists d. split; [|exact Hn]. unfold children_of. apply filter_In. split; [exact Hin|]. rewrite Ep. apply str_eqb_refl.
  Qed.

  (* DeleteById, for every amount of fuel *)
  Lemma delete_spec : forall n, DelSpec (delete_by_id sch oc n).
  Proof.
    induction n as [|n IH]; intros G stev s0 x stev' HD H; cbn [delete_by_id] in H; [discriminate|].
    destruct stev as [st evs]. cbn [fst] in *.
    set (r0 := root_of sch s0) in *.
    assert (HR : isroot sch r0) by (split; [apply (wp_root_nochild sch W) | apply (wp_roots sch W)]).
    destruct (present sch st r0 x) eqn:Epx; cbn [negb] in H; [|discriminate].
    destruct (children_delete sch oc (delete_by_id sch oc n) x (children_of sch r0) (st, evs) []) as [[[st1 evs1] flows]|e] eqn:Ech;
      cbn [bind] in H; [|discriminate].
    set (G' := gadd G r0 x).
    assert (DInv G' st) as HD' by (eapply DInv_weaken; [|exact HD]; intros r i Hg; left; exact Hg).
    assert (G' r0 x) as HG' by (right; split; reflexivity).
    destruct (children_delete_spec G' _ x r0 IH HG' _ (st, evs) [] (st1, evs1) flows (wp_children sch W r0) HD' Ech) as [HD1 [Hm1 Hc1]].
    cbn [fst] in *.
    destruct (present sch st1 r0 x) eqn:Epx1; cbn [negb] in H.
    - destruct (process_delete sch oc (delete_by_id sch oc n) (st1, evs1) r0 x) as [[st2 evs2]|e] eqn:Epd; cbn [bind] in H; [|discriminate].
      assert (G' (root_of sch r0) x) as HG'' by (destruct HR as [_ ->]; exact HG').
      destruct (process_delete_spec G' _ x r0 st1 evs1 st2 evs2 IH HG'' HD1 Epd) as [HD2 [Hm2 [Hc2 Hl2]]].
      cbn [fst snd] in H.
      destruct (fire (oc_vetoes oc) evs2 r0 Deleted x _) as [evs3|e]; cbn [bind] in H; [|discriminate].
      destruct (fire_flows oc x flows evs3) as [evs4|e]; cbn [bind] in H; [|discriminate].
      inversion H; subst stev'. clear H. cbn [fst].
      destruct (del_ent_spec G st2 r0 x HR) as [A B]; [| |exact HD2|].
      + intros s' Hrs Hp k Hk. destruct (str_eq_dec s' r0) as [->|Hne]; [apply Hc2; exact Hk|].
        (* a child store of r0 *)
        destruct (child_decl s' r0 Hrs Hne) as [d [Hd Hdn]].
        subst s'. eapply CleanK_mono; [exact Hm2|]. eapply (proj1 (Hc1 d Hd (dmono_present sch _ _ _ _ Hm2 Hp))). exact Hk.
      + intros s' Hrs Hp l Hl. destruct (str_eq_dec s' r0) as [->|Hne]; [apply Hl2; exact Hl|].
        destruct (child_decl s' r0 Hrs Hne) as [d [Hd Hdn]].
        subst s'. eapply CleanL_mono; [exact Hm2|]. eapply (proj2 (Hc1 d Hd (dmono_present sch _ _ _ _ Hm2 Hp))). exact Hl.
      + split; [exact A|]. split; [eapply dmono_trans; [exact Hm1 | eapply dmono_trans; [exact Hm2 | exact B]]|].
        rewrite get_ent_del_ent, !str_eqb_refl. reflexivity.
    - (* the entity vanished while its child stores were processed (cascade cycle) *)
      inversion H; subst stev'. clear H. cbn [fst].
      assert (get_ent st1 r0 x = None) as Hgone.
      { rewrite (present_root sch st1 r0 x (proj1 HR) (proj2 HR)) in Epx1. destruct (get_ent st1 r0 x); [discriminate | reflexivity]. }
      split; [|split; [exact Hm1 | exact Hgone]].
      destruct (del_ent_spec G st1 r0 x HR) as [A _]; [| |exact HD1|].
      + intros s' Hrs Hp. exfalso. apply present_get_ent in Hp. rewrite Hrs in Hp. congruence.
      + intros s' Hrs Hp. exfalso. apply present_get_ent in Hp. rewrite Hrs in Hp. congruence.
      + (* del_ent of an absent entity changes nothing observable *)
        destruct A as [HU [HS [HB [HF [HC HL]]]]].
        assert (Hge : forall r j, get_ent (del_ent st1 r0 x) r j = get_ent st1 r j).
        { intros r j. rewrite get_ent_del_ent. destruct (str_eqb r0 r && str_eqb x j) eqn:Eb; [|reflexivity].
          apply andb_prop in Eb as [E1 E2]. apply str_eqb_eq in E1, E2. subst. symmetry. exact Hgone. }
        assert (Hes : forall r j f, eset (del_ent st1 r0 x) r j f = eset st1 r j f) by (intros; unfold eset; rewrite Hge; reflexivity).
        assert (Hp : forall s j, present sch (del_ent st1 r0 x) s j = present sch st1 s j) by (intros; unfold present; rewrite Hge; reflexivity).
        assert (Hgf : forall s j f, get_field sch (del_ent st1 r0 x) s j f = get_field sch st1 s j f) by (intros; unfold get_field; rewrite Hge; reflexivity).
        refine (conj _ (conj _ (conj _ (conj _ (conj _ _))))).
        * intros r f v j Hj. destruct (HU r f v j Hj) as [s [nl [A1 [A2 [A3 [A4 A5]]]]]]. exists s, nl.
          unfold NoTraceInv.fbytes in *. rewrite Hp, Hgf in *. repeat split; assumption.
        * intros r f v j Hj. destruct (HS r f v j Hj) as [sO [A0 [A1 [A3 A2]]]]. rewrite Hes in A2. rewrite Hp in A3. exists sO. repeat split; assumption.
        * intros s f t b nl ti j Hin Hj. rewrite <- Hes in Hj. destruct (HB s f t b nl ti j Hin Hj) as [A1 [A2 A3]].
          unfold NoTraceInv.fbytes in *. rewrite Hp, Hgf in *. repeat split; assumption.
        * intros s f t b nl y v Hin Hg Hpy Hf Hne. rewrite <- Hes, <- Hp. apply (HF s f t b nl y v Hin Hg); [rewrite Hp | rewrite Hgf |]; assumption.
        * intros s f t nl y v Hin Hg Hpy Hf Hne. rewrite <- Hp. apply (HC s f t nl y v Hin Hg); [rewrite Hp | rewrite Hgf |]; assumption.
        * intros s lf os of_ i t Hin Hg Ht. rewrite <- Hes, <- !Hp. apply (HL s lf os of_ i t Hin Hg). rewrite Hes. exact Ht.
  Qed.
End Delete.
