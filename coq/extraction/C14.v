From Coq Require Import Extraction ExtrOcamlBasic NArith ZArith List.
From Storage Require Import Base.Bytes Cursor.Core Cursor.BoltCursor Cursor.Typed Cursor.Filtered
  Cursor.Union Cursor.Tree Cursor.SetSym Cursor.Cases Cursor.Reuse Cursor.Scanner Cursor.Product.
Extraction Language OCaml.
Definition force_types : nat * N * Z := (O, 0%N, 0%Z).
Extraction "c14_model.ml" force_types b_run bolt_run typed_run typed_run_legacy setsym_run handout_run handout_run_legacy
  rawhand_run empty_run filtered_typed_run filtered_nil_run union_typed_run treeset_run treeset_run_legacy
  union_tree_run union_filtered_run build_index allof_run anyof_run anyof_run_legacy allof_ids anyof_ids
  spec_next spec_ops sort_dedup mem setsym_reuse_run scan_run scan_spec
  ids_run valid_ids_run scan_bolt_run page accept_of ids_run_guarded multi_run multi_spec multi_run_shared.
