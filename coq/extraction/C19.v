From Coq Require Import Extraction ExtrOcamlBasic NArith ZArith List.
From Storage Require Import Base.Bytes Query.Compare Query.Paging Query.ScanUnique Query.ScanSort
  Query.ScalarFilter Query.ObjectScan.
Extraction Language OCaml.
Definition force_types : nat * N * Z := (O, 0%N, 0%Z).
Extraction "c19_model.ml" force_types objectz_query objectz_query_legacy boltz_query query_spec filter_spec
  filter_ok row_no_nan.
