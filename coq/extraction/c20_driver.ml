(* C20 driver.
     model_c20 c20    < cases.txt     one line per case:
         case  : <Y|U> <npub> {hex} <nmaps> {hex} <tree>
                 tree := T <kind> <nstrs> {<field> <hex>} <nkids> {<field> <n> {tree}}
         output: <shaped 0/1> <nvis> {hex} <A | R <hex>> <nall> {hex}
     model_c20 cfg    < cfg_cases.txt one line per store configuration:
         case  : <store 0|1> <nops> {<op> <store 0|1> <hex name> <hex key> <aux>} <nprobes> {hex}
                 op: I A F Q (registered and published under the name: AddIdSymbol, AddSymbol[WithKey],
                     AddFkSymbol[WithKey], AddPublicSetSymbol)  E S L (registered only: AddEntitySymbol,
                     AddSetSymbol, AddFkSetSymbol)  M (AddMapSymbol name key)  K (MakeSymbolPublic, aux 1 =
                     resolves through a linked store)  G (store0.GrantSymbols(store1))
         output: <npub> {hex, sorted, distinct} <nmaps> {hex, sorted, distinct} <one 0/1 per probe>
     model_c20 seq    < seq_cases.txt one line per HISTORY of validations:
         case  : <n> {<Y|U> <npub> {hex} <nmaps> {hex} <tree>}
         output: <n> {<shaped 0/1> <A | R <hex>> <nall> {hex}}      (gen_validate_seq: every step answered on its own)
     model_c20 table                  prints  complete <0/1>, validator <0/1>, one `gap <kind> <field> <reason>`
                                      line per broken table obligation, one `kind <name>` line per kind *)
(* [name] (one constructor, one field) is extracted as its content, a byte list *)
let name_of_string (s : string) : name =
  List.init (String.length s) (fun i -> n_of_int (Char.code s.[i]))
let string_of_name (nm : name) : string =
  String.concat "" (List.map (fun b -> String.make 1 (Char.chr (int_of_n b land 255))) (name_bytes nm))

let toks : string array ref = ref [||]
let pos = ref 0
let next () = let t = !toks.(!pos) in incr pos; t
let int_tok () = int_of_string (next ())
let rec repeat n f = if n <= 0 then [] else let x = f () in x :: repeat (n - 1) f
let hex_list () = let n = int_tok () in repeat n (fun () -> bytes_of_hex (next ()))

let rec parse_tree () : tree =
  if next () <> "T" then failwith "tree expected";
  let kind = name_of_string (next ()) in
  let ns = int_tok () in
  let strs = repeat ns (fun () -> let f = name_of_string (next ()) in let v = bytes_of_hex (next ()) in (f, v)) in
  let nk = int_tok () in
  let kids = repeat nk (fun () ->
    let f = name_of_string (next ()) in
    let n = int_tok () in
    let ts = repeat n parse_tree in (f, ts)) in
  T (kind, strs, kids)

let print_hex_list l =
  Printf.printf "%d" (List.length l);
  List.iter (fun s -> print_string (" " ^ hex_of_bytes s)) l

let () =
  let sub = if Array.length Sys.argv > 1 then Sys.argv.(1) else "c20" in
  if sub = "table" then begin
    Printf.printf "complete %s\n" (bool_str gen_table_complete);
    Printf.printf "validator %s\n" (bool_str gen_validator_ok);
    List.iter (fun ((k, f), r) ->
      Printf.printf "gap %s %s %s\n" (string_of_name k) (hex_of_bytes (name_bytes f)) (string_of_name r)) gen_gaps;
    List.iter (fun k -> Printf.printf "kind %s\n" (string_of_name k)) gen_kind_names
  end else if sub = "cfg" then
    iter_lines (fun line ->
      match split_ws line with
      | [] -> ()
      | l ->
        toks := Array.of_list l; pos := 0;
        (try
          let st = next () = "1" in
          let nops = int_tok () in
          let ops = repeat nops (fun () ->
            let op = next () in
            let ost = next () = "1" in
            let n = bytes_of_hex (next ()) in
            let k = bytes_of_hex (next ()) in
            let aux = next () in
            match op with
            | "I" | "A" | "F" | "Q" -> OAddPublic (ost, n, k)
            | "E" | "S" | "L" -> OAddPrivate (ost, n)
            | "M" -> OAddMap (ost, n, k)
            | "K" -> OMakePublic (ost, n, aux = "1")
            | "G" -> OGrant
            | _ -> failwith "op") in
          let probes = hex_list () in
          let ((pub, maps), bits) = cfg_observe ops st probes in
          let canon l = List.sort_uniq compare (List.map hex_of_bytes l) in
          let pr l = Printf.printf "%d" (List.length l); List.iter (fun h -> print_string (" " ^ h)) l in
          pr (canon pub); print_string " "; pr (canon maps); print_string " ";
          if bits = [] then print_string "-" else List.iter (fun b -> print_string (bool_str b)) bits;
          print_newline ()
        with _ -> print_endline "?"))
  else if sub = "seq" then
    iter_lines (fun line ->
      match split_ws line with
      | [] -> ()
      | l ->
        toks := Array.of_list l; pos := 0;
        (try
          let n = int_tok () in
          let steps = repeat n (fun () ->
            let _mode = next () in
            let pub = hex_list () in
            let maps = hex_list () in
            let t = parse_tree () in
            ((pub, maps), t)) in
          let verdicts = gen_validate_seq steps in
          let b = Buffer.create 256 in
          Buffer.add_string b (string_of_int n);
          List.iter2 (fun ((_, _), t) v ->
            Buffer.add_string b (" " ^ bool_str (gen_shaped_b t));
            (match v with
             | Accept -> Buffer.add_string b " A"
             | Reject x -> Buffer.add_string b (" R " ^ hex_of_bytes x));
            let all = gen_all_syms t in
            Buffer.add_string b (" " ^ string_of_int (List.length all));
            List.iter (fun x -> Buffer.add_string b (" " ^ hex_of_bytes x)) all) steps verdicts;
          print_endline (Buffer.contents b)
        with _ -> print_endline "?"))
  else
    iter_lines (fun line ->
      match split_ws line with
      | [] -> ()
      | l ->
        toks := Array.of_list l; pos := 0;
        (try
          let _mode = next () in
          let pub = hex_list () in
          let maps = hex_list () in
          let t = parse_tree () in
          print_string (bool_str (gen_shaped_b t)); print_string " ";
          print_hex_list (gen_visit t);
          (match gen_validate pub maps t with
           | Accept -> print_string " A"
           | Reject x -> print_string (" R " ^ hex_of_bytes x));
          print_string " ";
          print_hex_list (gen_all_syms t);
          print_newline ()
        with _ -> print_endline "?"))
