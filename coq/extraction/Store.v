From Coq Require Import Extraction ExtrOcamlBasic NArith ZArith List.
From Storage Require Import Base.Bytes Store.Model Store.XOps Store.TxCtx Store.LinkOne Store.Events Store.TxQuiet Store.TxPanic.
Extraction Language OCaml.
Definition force_types : nat * N * Z := (O, 0%N, 0%Z).
Extraction "store_model.ml" force_types st_empty run_tx find_store root_of is_child children_of query_ids valid_ids find_ids run_xtx ctx_update run_ltx hook_counts std_hooks ptx_update p_events.
