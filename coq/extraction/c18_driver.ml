(* C18 driver.  Case lines (see harness/cmd/storageharness/c18.go):
     W <commit> <n> <op>...            -> "W <index of the version now current>"
                                          (commit = 0: rolled back or failed part-way - no version; Properties/C18.v
                                           failed_transaction_not_a_version; trailing form / fail tokens are not read)
     Q <reader> <tx> <version> <query> -> the serial answer on that version
     R <kind>                          -> "R <current version>" (restore of the current state)
     D <outer> <steps> <at> <kind> <n> -> "D ok <generation the final reader saw> <steps>" (Db/LockTable.v lock_scenario)
     K .. / KC ..                      -> "K same" (kept values; Properties/C18.v kept_observations_persist)
     S.. / P..                         -> "S same" / "P same"
     X <helper>                        -> "X ok"
   All W lines precede the Q lines: the versions are computed once by the extracted
   [workload_versions] (= Mvcc.serial_versions on the workload). *)
let toks = ref [||]
let pos = ref 0
let next () = let t = !toks.(!pos) in incr pos; t
let next_int () = int_of_string (next ())
let next_str () = bytes_of_hex (next ())

let parse_tags () =
  let n = next_int () in
  let rec go k acc = if k = 0 then List.rev acc else let t = next_str () in go (k - 1) (t :: acc) in
  go n []

let parse_wop () =
  match next () with
  | "put" ->
      let id = next_str () in
      let name = next_str () in
      let g = (match next () with "nil" -> None | h -> Some (bytes_of_hex h)) in
      let v = z_of_dec (next ()) in
      let tags = parse_tags () in
      WPut { i_id = id; i_name = name; i_group = g; i_val = v; i_tags = tags }
  | "patch" -> let id = next_str () in let v = z_of_dec (next ()) in let tags = parse_tags () in WPatch (id, v, tags)
  | "del" -> WDelete (next_str ())
  | "link" -> let i = next_str () in let g = next_str () in WLink (i, g)
  | "unlink" -> let i = next_str () in let g = next_str () in WUnlink (i, g)
  | s -> failwith ("bad op " ^ s)

let parse_query () =
  match next () with
  | "load" | "loadby" | "loadent" | "loadraw" -> QLoad (next_str ())   (* the same question through every loader *)
  | "name" -> QName (next_str ())
  | "tag" | "tagm" | "tagany" -> QTag (next_str ())   (* index read / FindMatching / FindMatchingAnyOf of one value *)
  | "gitems" -> QGroupItems (next_str ())
  | "links" -> QLinks (next_str ())
  | "rlinks" -> QRevLinks (next_str ())
  | "f1" -> let g = next_str () in let v = z_of_dec (next ()) in QF1 (g, v)
  | "f2" -> QF2 (next_str ())
  | "f3" -> QF3 (z_of_dec (next ()))
  | "count" -> QCount
  | "list" -> let sk = z_of_dec (next ()) in let li = z_of_dec (next ()) in QList (sk, li)
  | "all" -> QAll
  | "f4" -> QF4 (next_str ())
  | "f5" -> QF5 (next_str ())
  | "f6" -> QF6 (next_str ())
  | "f7" -> QF7 (next_str ())
  | "f8" -> QF8 (next_str ())
  | "wcount" -> QWatchCount (z_of_dec (next ()))
  | "notags" -> QNoTags
  | "subhas" -> QSubHas (next_str ())
  | "subcount" -> let g = next_str () in let n = z_of_dec (next ()) in QSubCount (g, n)
  | "page" -> let v = z_of_dec (next ()) in let sk = z_of_dec (next ()) in let li = z_of_dec (next ()) in QPage (v, sk, li)
  | "gname" -> QGItemsName (next_str ())
  | "gtag" -> QGItemsTag (next_str ())
  | "gwtag" -> QGWatchTag (next_str ())
  | "gsub" -> QGSub (z_of_dec (next ()))
  | "glist" -> let sk = z_of_dec (next ()) in let li = z_of_dec (next ()) in QGList (sk, li)
  | "xb" -> QExtBool (next_int () <> 0)
  | "xbs" -> QExtBoolSort (z_of_dec (next ()))
  | "xs" -> QExtStr (next_str ())
  | "xss" -> QExtStrSort (z_of_dec (next ()))
  | "xg" -> QExtGroup
  | "xw" -> QExtWatch
  | "gxb" -> QGExtBool (next_int () <> 0)
  | "tagc" -> let t = next_str () in let fwd = next_int () <> 0 in QTagCursor (t, fwd)
  | "tagkeys" -> QTagKeys (next_int () <> 0)
  | "linked" -> let i = next_str () in let g = next_str () in QLinked (i, g)
  | "gidx" -> QGroupByName (next_str ())
  | s -> failwith ("bad query " ^ s)

(* "at <place> <query>": the query on the store family at that place; without it place 0 *)
let parse_placed () =
  if !pos < Array.length !toks && !toks.(!pos) = "at" then begin
    incr pos;
    let d = next_int () in
    let q = parse_query () in
    (nat_of_int d, q)
  end else (nat_of_int 0, parse_query ())

let show_answer = function
  | AIds l -> String.concat " " ("Q ids" :: List.map hex_of_bytes l)
  | AItem None -> "Q item none"
  | AItem (Some it) ->
      String.concat " " (["Q item"; hex_of_bytes it.i_id; hex_of_bytes it.i_name;
                          (match it.i_group with None -> "nil" | Some g -> hex_of_bytes g);
                          dec_of_z it.i_val; string_of_int (List.length it.i_tags)] @ List.map hex_of_bytes it.i_tags)
  | ACount n -> let k = int_of_nat n in Printf.sprintf "Q count %d %d %d" k k k

let ws = ref []            (* writer transactions, newest first *)
let cur = ref empty_state
let nver = ref 0
let versions = ref None

let get_versions () =
  match !versions with
  | Some a -> a
  | None -> let a = Array.of_list (workload_versions (List.rev !ws)) in versions := Some a; a

let () =
  iter_lines (fun line ->
    match split_ws line with
    | "W" :: rest ->
        toks := Array.of_list rest; pos := 0;
        let commit = next_int () = 1 in
        let n = next_int () in
        let rec go k acc = if k = 0 then List.rev acc else let o = parse_wop () in go (k - 1) (o :: acc) in
        let w = (commit, go n []) in
        ws := w :: !ws; versions := None;
        (match apply_wtx w !cur with Some s -> cur := s; incr nver | None -> ());
        Printf.printf "W %d\n" !nver
    | "Q" :: _ :: _ :: v :: rest ->
        toks := Array.of_list rest; pos := 0;
        let q = parse_placed () in
        let a = get_versions () in
        let v = int_of_string v in
        if v < 0 || v >= Array.length a then print_endline "Q noversion"
        else print_endline (show_answer (eval_placed q a.(v)))
    | "R" :: _ -> Printf.printf "R %d\n" !nver      (* the current state restored: no version changes *)
    | "D" :: _ :: steps :: at :: _ ->
        (* one transaction of joined calls, a restore pending before step [at] (-1: none), a final reader *)
        let n = String.length steps in
        let at = int_of_string at in
        let restore = at >= 0 in
        (match lock_scenario_plain (nat_of_int n) (nat_of_int (if restore then at else 0)) restore with
         | Some (g, seen) -> Printf.printf "D ok %d %d\n" (int_of_nat g) (int_of_nat seen)
         | None -> print_endline "D stuck")
    | ("K" | "KC") :: _ -> print_endline "K same"   (* an observation, once made, does not change *)
    | "S" :: _ -> print_endline "S same"
    | "P" :: _ -> print_endline "P same"
    | "X" :: _ -> print_endline "X ok"
    | "C" :: _ -> print_endline "C ok"
    | [] -> ()
    | _ -> print_endline "?")
