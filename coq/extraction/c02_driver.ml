(* C02 driver.  Case lines (see harness/cmd/storageharness/c02.go, c02child.go):
     D <n> <ncols> { <id> <cell>*ncols }*n      dataset: the rows of the ROOT store in ascending id order, cells as
        the stores of the chain see them; becomes current; resets layout (every row level 0) and view (root)
        cell: N | B0 | B1 | I<dec> | F<16 hex> | S<hex|-> | T<sec>:<nsec>
     L <levels|e> <owners>                      layout of the current dataset: one digit per row = the deepest
        store of the chain root(0) / child(1) / grandchild(2) whose bucket the row has (owners: per column, unused here)
     V <tier> <ext>                             the store queried from here on: tier 0 root, 1 child, 2 grandchild;
        ext 1 = extended.  A row is present in the store iff its level >= tier
     Q|X <bits> <nsort> { <col|id> <b|i|f|s|t> <a|d> }* <skip|-> <limit|-|none>
        bits: one 0/1 per row of the current dataset (does the filter match)
     R <bits> <nsort> {sort}* <skip> <limit> <nops> {op}*     one compiled query, executed and mutated by the caller
        op: q (QueryIdsC) | w (QueryWithCursorC) | i (IterateIds) | o (objectz QueryEntitiesC) | x (unrelated activity)
            | S <z> (SetSkip) | L <z> (SetLimit) | A <nsort> {sort}* (AdoptSortFields) | P <bits> (SetPredicate)
     G <hexdigits|e>                            tag masks of the rows (harness side only; ignored here)
     P <bits> <nsort> {sort}* <skip> <limit> <mult|e> <provider>     QueryWithCursorC over a cursor provider: mult has one
        digit per row = how often the provider's sources name the row; the raw candidate list handed to the model names
        every row that often, in descending row order (order and repetitions are irrelevant: Properties/C02.v
        provider_answer_depends_on_candidate_set_only)
   Output for P:    query=<count>:<ids> spec=<count>:<ids> sorting=<count>:<ids> legacy=<count>:<ids> setonly=<0|1>
        setonly: the same query over the duplicate-free ascending candidate list gives the same answer
   Output for Q/X:  query=<count>:<ids> spec=<count>:<ids> iter=<ids> iterspec=<ids> legacy=<count>:<ids> legiter=<ids> sorting=<count>:<ids> nan=<0|1>
   Output for R:    n=<runs> { a<k>=<answer> s<k>=<specified answer> e<k>=<skip>/<limit> }    k-th execution;
        answer = <count>:<ids>, for the iteration i:<ids>; e<k> = effective paging of the query object after it
   ids: comma separated hex, - when empty *)
let parse_cell (t : string) : cell =
  let rest () = String.sub t 1 (String.length t - 1) in
  match t.[0] with
  | 'N' -> CNull
  | 'B' -> CBool (t = "B1")
  | 'I' -> CInt (z_of_dec (rest ()))
  | 'F' -> CFloat (n_of_hex64 (rest ()))
  | 'S' -> CStr (bytes_of_hex (rest ()))
  | 'T' -> (match String.split_on_char ':' (rest ()) with
            | [s; n] -> CTime (z_of_dec s, n_of_u64 (Int64.of_string n))
            | _ -> failwith "bad time")
  | _ -> failwith ("bad cell " ^ t)

let ktype_of = function
  | "b" -> TBool | "i" -> TInt | "f" -> TFloat | "s" -> TStr | "t" -> TTime
  | x -> failwith ("bad type " ^ x)

let ids_str (l : n list list) : string =
  if l = [] then "-" else String.concat "," (List.map hex_of_bytes l)
let res_str ((ids, cnt) : n list list * z) : string = dec_of_z cnt ^ ":" ^ ids_str ids
let ans_str ((ids, cnt) : n list list * z option) : string =
  (match cnt with Some c -> dec_of_z c | None -> "i") ^ ":" ^ ids_str ids

let rec take k l = if k = 0 then ([], l) else match l with x :: r -> let (a, b) = take (k - 1) r in (x :: a, b) | [] -> failwith "short"

let current : row list ref = ref []
let levels : (n list * int) list ref = ref []      (* id -> level *)
let view : (int * bool) ref = ref (0, false)

let opt_z = function "-" -> None | "none" -> Some (z_of_int (-1)) | s -> Some (z_of_dec s)

let rec sort_fields k toks acc =
  if k = 0 then (List.rev acc, toks) else
  match toks with
  | col :: ty :: dir :: more ->
      let c = if col = "id" then ColId else Col (nat_of_int (int_of_string col), ktype_of ty) in
      sort_fields (k - 1) more ({ sf_col = c; sf_asc = (dir = "a") } :: acc)
  | _ -> failwith "short sort"

let pred_of_bits (bits : string) : row -> bool =
  let rows = !current in
  let matching = List.filteri (fun i _ -> bits.[i] = '1') rows |> List.map (fun r -> r.r_id) in
  fun r -> List.mem r.r_id matching

let rec parse_ops toks acc =
  match toks with
  | [] -> List.rev acc
  | "q" :: more -> parse_ops more (Run EQueryIds :: acc)
  | "w" :: more -> parse_ops more (Run ECursorQuery :: acc)
  | "i" :: more -> parse_ops more (Run EIterate :: acc)
  | "o" :: more -> parse_ops more (Run EObjects :: acc)
  | "x" :: more -> parse_ops more acc
  | "S" :: v :: more -> parse_ops more (SetSkip (z_of_dec v) :: acc)
  | "L" :: v :: more -> parse_ops more (SetLimit (z_of_dec v) :: acc)
  | "A" :: k :: more -> let (fs, more') = sort_fields (int_of_string k) more [] in parse_ops more' (AdoptSort fs :: acc)
  | "P" :: bits :: more -> parse_ops more (SetPred (pred_of_bits bits) :: acc)
  | t :: _ -> failwith ("bad op " ^ t)

let () =
  iter_lines (fun line ->
    match split_ws line with
    | "D" :: n :: nc :: rest ->
        let n = int_of_string n and nc = int_of_string nc in
        let rec rows k toks acc =
          if k = 0 then List.rev acc else
          match toks with
          | id :: more ->
              let (cells, more') = take nc more in
              rows (k - 1) more' ({ r_id = bytes_of_hex id; r_cells = List.map parse_cell cells } :: acc)
          | [] -> failwith "short dataset" in
        current := rows n rest [];
        levels := List.map (fun r -> (r.r_id, 0)) !current;
        view := (0, false);
        print_endline "D"
    | "L" :: lv :: _ ->
        levels := List.mapi (fun i r -> (r.r_id, Char.code lv.[i] - 48)) !current;
        print_endline "L"
    | "V" :: tier :: ext :: _ ->
        view := (int_of_string tier, ext = "1");
        print_endline "V"
    | "G" :: _ -> print_endline "G"
    | "P" :: bits :: ns :: rest ->
        let (fs, rest') = sort_fields (int_of_string ns) rest [] in
        let (tier, ext) = !view in
        let sv = { sv_child = tier > 0; sv_extended = ext } in
        let lv = !levels in
        let present (r : row) = List.assoc r.r_id lv >= tier in
        let rows = !current in
        let matches = pred_of_bits bits in
        let (sk, lim, mult) = (match rest' with [a; b; m; _] -> (opt_z a, opt_z b, m) | _ -> failwith "bad provider query") in
        let p = { pg_skip = sk; pg_limit = lim } in
        let rec rep k x acc = if k <= 0 then acc else rep (k - 1) x (x :: acc) in
        (* raw candidates: descending row order, every row as often as it is named *)
        let cand = List.fold_left (fun acc (i, r) -> rep (Char.code mult.[i] - 48) r.r_id acc) []
                     (List.mapi (fun i r -> (i, r)) rows) in
        let cand_set = List.sort_uniq compare cand in
        let got = provider_query_ids sv present cand matches fs p rows in
        let again = provider_query_ids sv present cand_set matches fs p rows in
        let legacy_matches (r : row) = in_store sv present r && cand_mem cand r && matches r in
        Printf.printf "query=%s spec=%s sorting=%s legacy=%s setonly=%s\n"
          (res_str got)
          (res_str (provider_query_spec sv present cand matches fs p rows))
          (res_str (provider_scan_sorting sv present cand matches fs p rows))
          (res_str (query_ids_legacy legacy_matches fs p rows))
          (bool_str (got = again))
    | kind :: bits :: ns :: rest when kind = "Q" || kind = "X" || kind = "R" ->
        let (fs, rest') = sort_fields (int_of_string ns) rest [] in
        let (tier, ext) = !view in
        let sv = { sv_child = tier > 0; sv_extended = ext } in
        let lv = !levels in
        let present (r : row) = List.assoc r.r_id lv >= tier in
        let rows = !current in
        let matches = pred_of_bits bits in
        if kind = "R" then begin
          let (sk, lim, optoks) = (match rest' with a :: b :: _ :: ops -> (opt_z a, opt_z b, ops) | _ -> failwith "bad program") in
          let q0 = { cq_match = matches; cq_sort = fs; cq_paging = { pg_skip = sk; pg_limit = lim } } in
          let ops = parse_ops optoks [] in
          let got = run_prog sv present rows q0 ops and want = spec_prog sv present rows q0 ops in
          (* the query object after every execution: stepping with the extracted exec / mutate *)
          let rec states q ops acc = match ops with
            | [] -> List.rev acc
            | Run e :: more -> let (_, q') = exec sv present rows e q in states q' more (effective_paging q' :: acc)
            | o :: more -> states (mutate o q) more acc in
          let effs = states q0 ops [] in
          let b = Buffer.create 256 in
          Buffer.add_string b (Printf.sprintf "n=%d" (List.length got));
          List.iteri (fun k a ->
            let (es, el) = List.nth effs k in
            Buffer.add_string b (Printf.sprintf " a%d=%s s%d=%s e%d=%s/%s" k (ans_str a) k (ans_str (List.nth want k)) k (dec_of_z es) (dec_of_z el))) got;
          print_endline (Buffer.contents b)
        end else begin
          let (sk, lim) = (match rest' with [a; b] -> (opt_z a, opt_z b) | _ -> failwith "bad paging") in
          let p = { pg_skip = sk; pg_limit = lim } in
          let ents = store_rows sv present rows in
          let store_matches (r : row) = in_store sv present r && matches r in
          let nan = List.exists (fun r -> not (row_no_nan r)) rows in
          Printf.printf "query=%s spec=%s iter=%s iterspec=%s legacy=%s legiter=%s sorting=%s nan=%s\n"
            (res_str (child_query_ids sv present matches fs p rows))
            (res_str (query_spec fs p matches ents))
            (ids_str (child_iterate_ids sv present matches p rows))
            (ids_str (List.map (fun r -> r.r_id) (page p (List.filter matches ents))))
            (res_str (query_ids_legacy store_matches fs p rows))
            (ids_str (iterate_ids_legacy store_matches p rows))
            (res_str (child_scan_sorting sv present matches fs p rows))
            (bool_str nan)
        end
    | [] -> ()
    | _ -> print_endline "?")
