(* C02 driver.  Case lines (see harness/cmd/storageharness/c02.go):
     D <n> <ncols> { <id> <cell>*ncols }*n      dataset, rows in ascending id order; becomes current
        cell: N | B0 | B1 | I<dec> | F<16 hex> | S<hex|-> | T<sec>:<nsec>
     Q|X <bits> <nsort> { <col|id> <b|i|f|s|t> <a|d> }* <skip|-> <limit|-|none>
        bits: one 0/1 per row of the current dataset (does the filter match)
   Output for Q/X:  query=<count>:<ids> spec=<count>:<ids> iter=<ids> iterspec=<ids> legacy=<count>:<ids> legiter=<ids> sorting=<count>:<ids> nan=<0|1>
   ids: comma separated hex, - when empty *)
let parse_cell (t : string) : cell =
  let rest () = String.sub t 1 (String.length t - 1) in
  match t.[0] with
  | 'N' -> CNull
  | 'B' -> CBool (t = "B1")
  | 'I' -> CInt (z_of_dec (rest ()))
  | 'F' -> CFloat (n_of_hex64 (rest ()))
  | 'S' -> CStr (bytes_of_hex (rest ()))
  | 'T' -> (match String.split_on_char ':' (rest ()) with
            | [s; n] -> CTime (z_of_dec s, n_of_u64 (Int64.of_string n))
            | _ -> failwith "bad time")
  | _ -> failwith ("bad cell " ^ t)

let ktype_of = function
  | "b" -> TBool | "i" -> TInt | "f" -> TFloat | "s" -> TStr | "t" -> TTime
  | x -> failwith ("bad type " ^ x)

let ids_str (l : n list list) : string =
  if l = [] then "-" else String.concat "," (List.map hex_of_bytes l)
let res_str ((ids, cnt) : n list list * z) : string = dec_of_z cnt ^ ":" ^ ids_str ids

let rec take k l = if k = 0 then ([], l) else match l with x :: r -> let (a, b) = take (k - 1) r in (x :: a, b) | [] -> failwith "short"

let current : row list ref = ref []

let opt_z = function "-" -> None | "none" -> Some (z_of_int (-1)) | s -> Some (z_of_dec s)

let () =
  iter_lines (fun line ->
    match split_ws line with
    | "D" :: n :: nc :: rest ->
        let n = int_of_string n and nc = int_of_string nc in
        let rec rows k toks acc =
          if k = 0 then List.rev acc else
          match toks with
          | id :: more ->
              let (cells, more') = take nc more in
              rows (k - 1) more' ({ r_id = bytes_of_hex id; r_cells = List.map parse_cell cells } :: acc)
          | [] -> failwith "short dataset" in
        current := rows n rest [];
        print_endline "D"
    | kind :: bits :: ns :: rest when kind = "Q" || kind = "X" ->
        let ns = int_of_string ns in
        let rec fields k toks acc =
          if k = 0 then (List.rev acc, toks) else
          match toks with
          | col :: ty :: dir :: more ->
              let c = if col = "id" then ColId else Col (nat_of_int (int_of_string col), ktype_of ty) in
              fields (k - 1) more ({ sf_col = c; sf_asc = (dir = "a") } :: acc)
          | _ -> failwith "short sort" in
        let (fs, rest') = fields ns rest [] in
        let (sk, lim) = (match rest' with [a; b] -> (opt_z a, opt_z b) | _ -> failwith "bad paging") in
        let p = { pg_skip = sk; pg_limit = lim } in
        let rows = !current in
        let matching = List.filteri (fun i _ -> bits.[i] = '1') rows |> List.map (fun r -> r.r_id) in
        let matches (r : row) = List.mem r.r_id matching in
        let nan = List.exists (fun r -> not (row_no_nan r)) rows in
        Printf.printf "query=%s spec=%s iter=%s iterspec=%s legacy=%s legiter=%s sorting=%s nan=%s\n"
          (res_str (query_ids matches fs p rows))
          (res_str (query_spec fs p matches rows))
          (ids_str (iterate_ids matches p rows))
          (ids_str (List.map (fun r -> r.r_id) (page p (List.filter matches rows))))
          (res_str (query_ids_legacy matches fs p rows))
          (ids_str (iterate_ids_legacy matches p rows))
          (res_str (scan_sorting matches fs p rows))
          (bool_str nan)
    | [] -> ()
    | _ -> print_endline "?")
