From Coq Require Import Extraction ExtrOcamlBasic NArith ZArith List.
From Storage Require Import Base.Bytes Query.Compare Query.Paging Query.ScanUnique Query.ScanSort Query.ChildScan Query.Provider.
Extraction Language OCaml.
Definition force_types : nat * N * Z := (O, 0%N, 0%Z).
Extraction "c02_model.ml" force_types query_ids query_ids_legacy query_spec iterate_ids iterate_ids_legacy
  scan_sorting scan_unique page row_cmp row_no_nan
  child_query_ids child_scan_sorting child_iterate_ids store_rows in_store
  exec mutate run_prog pure_prog spec_prog effective_paging
  cand_mem provider_query_ids provider_scan_sorting provider_query_spec.
