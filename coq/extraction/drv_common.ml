(* Shared glue between the extracted models and the line-oriented case files.
   Concatenated after <x>_model.ml, so [positive], [n], [z] are the extracted inductives.
   Trusted for the correspondence check only. *)
let rec pos_of_int (i : int) : positive =
  if i = 1 then XH else if i land 1 = 1 then XI (pos_of_int (i lsr 1)) else XO (pos_of_int (i lsr 1))
let n_of_int (i : int) : n = if i = 0 then N0 else Npos (pos_of_int i)
let rec int_of_pos (p : positive) : int =
  match p with XH -> 1 | XO q -> 2 * int_of_pos q | XI q -> 2 * int_of_pos q + 1
let int_of_n (x : n) : int = match x with N0 -> 0 | Npos p -> int_of_pos p
let z_of_int (i : int) : z = if i = 0 then Z0 else if i > 0 then Zpos (pos_of_int i) else Zneg (pos_of_int (- i))
let int_of_z (x : z) : int = match x with Z0 -> 0 | Zpos p -> int_of_pos p | Zneg p -> - (int_of_pos p)

(* 64-bit quantities travel as 16 hex digits (two's complement for int64) *)
let rec pos_of_int64u (i : int64) : positive =
  (* i <> 0, treated as unsigned *)
  if Int64.equal i 1L then XH
  else let rest = Int64.shift_right_logical i 1 in
    if Int64.equal (Int64.logand i 1L) 1L then XI (pos_of_int64u rest) else XO (pos_of_int64u rest)
let n_of_u64 (i : int64) : n = if Int64.equal i 0L then N0 else Npos (pos_of_int64u i)
let rec u64_of_pos (p : positive) : int64 =
  match p with XH -> 1L | XO q -> Int64.shift_left (u64_of_pos q) 1 | XI q -> Int64.logor (Int64.shift_left (u64_of_pos q) 1) 1L
let u64_of_n (x : n) : int64 = match x with N0 -> 0L | Npos p -> u64_of_pos p
let z_of_i64 (i : int64) : z =
  if Int64.equal i 0L then Z0
  else if Int64.compare i 0L > 0 then Zpos (pos_of_int64u i)
  else if Int64.equal i Int64.min_int then Zneg (pos_of_int64u i) (* 2^63 as unsigned *)
  else Zneg (pos_of_int64u (Int64.neg i))
let i64_of_z (x : z) : int64 =
  match x with Z0 -> 0L | Zpos p -> u64_of_pos p | Zneg p -> Int64.neg (u64_of_pos p)
let z_of_dec (s : string) : z = z_of_i64 (Int64.of_string s)
let dec_of_z (x : z) : string = Int64.to_string (i64_of_z x)
let n_of_hex64 (s : string) : n = n_of_u64 (Int64.of_string ("0x" ^ s))
let hex64_of_n (x : n) : string = Printf.sprintf "%016Lx" (u64_of_n x)

let hexval c = match c with
  | '0'..'9' -> Char.code c - 48 | 'a'..'f' -> Char.code c - 87 | 'A'..'F' -> Char.code c - 55
  | _ -> failwith "bad hex"
(* byte strings travel hex-encoded; the empty string is "-" *)
let bytes_of_hex (s : string) : n list =
  if s = "-" then [] else begin
    let l = String.length s / 2 in
    let rec go i acc = if i < 0 then acc else go (i - 1) (n_of_int (hexval s.[2*i] * 16 + hexval s.[2*i+1]) :: acc) in
    go (l - 1) []
  end
let hex_of_bytes (l : n list) : string =
  if l = [] then "-" else String.concat "" (List.map (fun b -> Printf.sprintf "%02x" (int_of_n b)) l)

let rec nat_of_int (i : int) = if i <= 0 then O else S (nat_of_int (i - 1))
let rec int_of_nat = function O -> 0 | S k -> 1 + int_of_nat k

let split_ws (s : string) : string list =
  List.filter (fun x -> x <> "") (String.split_on_char ' ' s)

let iter_lines (f : string -> unit) : unit =
  try while true do f (input_line stdin) done with End_of_file -> ()

let bool_str b = if b then "1" else "0"
