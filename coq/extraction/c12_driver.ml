(* C12 driver.  Case lines (harness c12.go):
     S <stream> <mode> <hex filter> <expr> <atoms>
     W <stream> <mode> <hex filter> <expr> <atoms> <hex base filter>
   Output:
     S <token kinds> <dropped regions> <tt fixed model|E> <tt surface semantics> <tt legacy model|E> <tt dnf>
     W ... same ... <tt fixed model of the base filter|E>
   <expr> prefix form:  .p  !e  &pe  |pe ;  primaries  <hexname>  and  (e)
   Stream k (harness c12kw.go):
     K <stream> <site class> <store> <hex canonical query> <hex re-spelled query>
   Output:
     K <token kinds of the re-spelling (lex_full)> <dropped regions> <1 if both lex without drops and have the same
       normal form (WordOps.norm) else 0> <negation flags of the word-operator tokens: canonical> <... re-spelling>
   Stream n (harness c12w3.go): a skeleton over atoms whose value on every row of a store is given (one bit string
   per atom: what the code answers for the atom alone on that row)
     N <stream> <store> <hex query> <hex skeleton> <expr> <atoms> <hex atom texts> <row bits of atom,..>
   Output:
     N <rows selected by the fixed model|E> <rows selected by the surface semantics>  *)
let str_of_name (s : string) : n list = List.init (String.length s) (fun i -> n_of_int (Char.code s.[i]))

let parse_expr (s : string) : expr =
  let pos = ref 0 in
  let peek () = s.[!pos] in
  let adv () = incr pos in
  let rec prim () =
    match peek () with
    | '<' ->
        adv ();
        let st = !pos in
        while peek () <> '>' do adv () done;
        let h = String.sub s st (!pos - st) in
        adv ();
        XAtom (bytes_of_hex h)
    | '(' ->
        adv ();
        let e = expr () in
        if peek () <> ')' then failwith "expected )";
        adv ();
        XParen e
    | _ -> failwith "bad prim"
  and expr () =
    match peek () with
    | '.' -> adv (); ELast (prim ())
    | '!' -> adv (); ENot (expr ())
    | '&' -> adv (); let p = prim () in let e = expr () in EAnd (p, e)
    | '|' -> adv (); let p = prim () in let e = expr () in EOr (p, e)
    | _ -> failwith "bad expr"
  in
  expr ()

let rec list_index (x : n list) (l : n list list) (i : int) : int =
  match l with
  | [] -> -1
  | y :: r -> if str_eqb x y then i else list_index x r (i + 1)

let truth_table (k : int) (atoms : n list list) (f : (n list -> bool) -> bool) : string =
  String.init (1 lsl k) (fun a ->
    let rho name = let i = list_index name atoms 0 in i >= 0 && (a lsr i) land 1 = 1 in
    if f rho then '1' else '0')

let tt_compiled prec toks k atoms =
  match compile prec toks with
  | Some b -> truth_table k atoms (fun rho -> eval b rho)
  | None -> "E"

let kinds_str segs =
  let ks = List.filter_map (fun s -> match s with Tok (k, _) -> Some (string_of_int (int_of_nat k)) | Drop _ -> None) segs in
  if ks = [] then "-" else String.concat "," ks

let flags_str segs =
  let fl = neg_flags segs in
  if fl = [] then "-" else String.concat "" (List.map (fun b -> if b then "1" else "0") fl)

let () =
  iter_lines (fun line ->
    match split_ws line with
    | "K" :: _stream :: _cls :: _store :: hcanon :: hresp :: _ ->
        let sc = lex_full (bytes_of_hex hcanon) in
        let sr = lex_full (bytes_of_hex hresp) in
        let same = drops_of sc = [] && drops_of sr = [] && norm sc = norm sr in
        Printf.printf "K %s %d %d %s %s\n" (kinds_str sr) (List.length (drops_of sr)) (if same then 1 else 0)
          (flags_str sc) (flags_str sr)
    | "N" :: _stream :: _store :: _hq :: hfilter :: pre :: atomstr :: _texts :: bitstr :: _ ->
        let atoms = List.map str_of_name (String.split_on_char ',' atomstr) in
        let bits = Array.of_list (String.split_on_char ',' bitstr) in
        let nrows = String.length bits.(0) in
        let rows f = String.init nrows (fun r ->
          let rho name = let i = list_index name atoms 0 in i >= 0 && bits.(i).[r] = '1' in
          if f rho then '1' else '0') in
        let toks = toks_of (lex_skeleton (bytes_of_hex hfilter)) in
        let e = parse_expr pre in
        Printf.printf "N %s %s\n"
          (match compile fixed_prec toks with Some b -> rows (fun rho -> eval b rho) | None -> "E")
          (rows (fun rho -> sem e rho))
    | kind :: _stream :: _mode :: hfilter :: pre :: atomstr :: rest when kind = "S" || kind = "W" ->
        let atoms = List.map str_of_name (String.split_on_char ',' atomstr) in
        let k = List.length atoms in
        let segs = lex_skeleton (bytes_of_hex hfilter) in
        let toks = toks_of segs in
        let e = parse_expr pre in
        let base = match rest with
          | [hb] -> " " ^ tt_compiled fixed_prec (toks_of (lex_skeleton (bytes_of_hex hb))) k atoms
          | _ -> "" in
        Printf.printf "%s %s %d %s %s %s %s%s\n" kind (kinds_str segs) (List.length (drops_of segs))
          (tt_compiled fixed_prec toks k atoms)
          (truth_table k atoms (fun rho -> sem e rho))
          (tt_compiled legacy_prec toks k atoms)
          (truth_table k atoms (fun rho -> sem_dnf e rho))
          base
    | [] -> ()
    | _ -> print_endline "?")
