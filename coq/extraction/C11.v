From Coq Require Import Extraction ExtrOcamlBasic NArith ZArith.
From Storage Require Import Base.Bytes Lang.Unescape Lang.StrCompare Lang.StrFilter.
Extraction Language OCaml.
Definition force_types : nat * N * Z := (O, 0%N, 0%Z).
Extraction "c11_model.ml" force_types parse_zql_string parse_zql_string_legacy body_ok
  literal_min literal_full expressible_min expressible_full
  cmp_query contains_query icontains_query in_query any_of all_of any_of_eq_seek ascending
  filter_query write_atom fmap.
