(* C05 driver.  Case lines (written by harness/cmd/storageharness/c05.go):
     H <nA> <idA>.. <nB> <idB>.. <ntx> { <nops> <op>.. }..
     S <nA> <idA>.. <nB> <idB>.. <sd> <a> <ncur> <cur>.. <nreq> <req>.. <npre> <pre>..
   op := C sd x | D sd x | AL sd a n k.. | RL sd a n k.. | SL sd a n k.. | A1 sd a k | R1 sd a k
       | I sd a k | DC sd a k | SC sd a k count
   Output: per transaction  <ok|f<i>> <dump>, blocks joined by " ; ", where the dump prints for
   side A then B (separated by "/") per universe id
     present:GetLinks:IsLinked:IterateLinks:raw:counts src:counts tgt:GetLinkCount:rc raw:rc iterate
   with ids as indices into the other side's universe.  The model has one link set per entity,
   so every link observer prints the same list. *)
let toks = ref []
let next () = match !toks with x :: t -> toks := t; x | [] -> failwith "truncated case"
let next_int () = int_of_string (next ())
(* long ids are written <hex prefix>*<length>: the prefix padded with 'z' to the length (c05_strategy.go) *)
let id_of_token tok =
  match String.index_opt tok '*' with
  | None -> bytes_of_hex tok
  | Some i ->
    let pre = bytes_of_hex (String.sub tok 0 i) in
    let n = int_of_string (String.sub tok (i + 1) (String.length tok - i - 1)) in
    let z = List.hd (bytes_of_hex "7a") in
    pre @ List.init (n - List.length pre) (fun _ -> z)
let next_id () = id_of_token (next ())
let next_ids () = let n = next_int () in List.init n (fun _ -> next_id ())
let next_side () = (next () = "A")

let next_op () =
  let kind = next () in
  let sd = next_side () in
  let a = next_id () in
  match kind with
  | "C" -> OCreate (sd, a)
  | "D" -> ODelete (sd, a)
  | "AL" -> OAddLinks (sd, a, next_ids ())
  | "RL" -> ORemoveLinks (sd, a, next_ids ())
  | "SL" -> OSetLinks (sd, a, next_ids ())
  | "A1" -> OAddLink (sd, a, next_id ())
  | "R1" -> ORemoveLink (sd, a, next_id ())
  | "I" -> OIncr (sd, a, next_id ())
  | "DC" -> ODecr (sd, a, next_id ())
  | "SC" -> let k = next_id () in OSetCount (sd, a, k, z_of_dec (next ()))
  | _ -> failwith ("bad op " ^ kind)

let join l = if l = [] then "-" else String.concat "." l

(* indices are printed sorted as strings, like the Go side does *)
let sorted l = List.sort compare l

let dump (u : (n list list) * (n list list)) (s : lstate) : string =
  let buf = Buffer.create 256 in
  List.iter (fun sd ->
    let own = uni u sd and ou = uni u (not sd) in
    if not sd then Buffer.add_string buf " /";
    List.iter (fun x ->
      let p = s.pres sd x in
      let idx = List.mapi (fun i k -> (i, k)) ou in
      let links = if p then List.filter_map (fun (i, k) -> if s.lnk sd x k then Some (string_of_int i) else None) idx else [] in
      let links = join (sorted links) in
      let cnt f = join (sorted (List.filter_map (fun (i, k) ->
        match f k with Some c -> Some (Printf.sprintf "%d=%s" i (dec_of_z c)) | None -> None) idx)) in
      let cs = cnt (fun k -> fst (get_link_counts s sd x k)) in
      let ct = cnt (fun k -> snd (get_link_counts s sd x k)) in
      let own_c = cnt (fun k -> if p then s.rc sd x k else None) in
      let cit = join (sorted (List.filter_map (fun (i, k) ->
        if p && s.rc sd x k <> None then Some (string_of_int i) else None) idx)) in
      Buffer.add_string buf (Printf.sprintf " %s:%s:%s:%s:%s:%s:%s:%s:%s:%s" (if p then "1" else "0")
        links links links links cs ct own_c own_c cit)) own) [true; false];
  String.trim (Buffer.contents buf)

let verdict u ops s =
  match first_failure u ops s O with
  | None -> "ok"
  | Some i -> "f" ^ string_of_int (int_of_nat i)

let run_history () =
  let ua = next_ids () in
  let ub = next_ids () in
  let u = (ua, ub) in
  let ntx = next_int () in
  let s = ref init_state in
  let blocks = ref [] in
  for _ = 1 to ntx do
    let nops = next_int () in
    let ops = List.init nops (fun _ -> next_op ()) in
    let v = verdict u ops !s in
    let (_, s') = run_tx u ops !s in
    s := s';
    blocks := (v ^ " " ^ dump u !s) :: !blocks
  done;
  String.concat " ; " (List.rev !blocks)

(* must stay in step with c05SetLinksSetup in c05.go *)
let set_links_setup u sd a cur pre =
  let own = uni u sd and ou = uni u (not sd) in
  let creates = List.map (fun x -> OCreate (sd, x)) own @ List.map (fun k -> OCreate (not sd, k)) pre in
  let evens = List.filteri (fun i _ -> i mod 2 = 0) ou in
  let evens = List.filter (fun k -> List.mem k pre) evens in
  let others = List.filter_map (fun x -> if x = a then None else Some (OAddLinks (sd, x, evens))) own in
  creates @ [OAddLinks (sd, a, cur)] @ others

let run_set_links () =
  let ua = next_ids () in
  let ub = next_ids () in
  let u = (ua, ub) in
  let sd = next_side () in
  let a = next_id () in
  let cur = next_ids () in
  let req = next_ids () in
  let pre = next_ids () in
  let (okk, s0) = run_tx u (set_links_setup u sd a cur pre) init_state in
  if not okk then "setup-failed" else begin
    let ops = [OSetLinks (sd, a, req)] in
    let v = verdict u ops s0 in
    let (_, s1) = run_tx u ops s0 in
    v ^ " " ^ dump u s1
  end

(* ---- T cases: histories over a parent / child store hierarchy (Links/HierMachine.v) --------------
     T <nkA> <ext>.. <nkB> <ext>.. <np> { <lvA> <lvB> }.. <nA> <idA>.. <nB> <idB>.. <ntx> { <nops> <op>.. }..
   op := C <lv> sd x | D <lv> sd x | <link op kind> <pair> sd a ...   (one number after the kind)
   Output per transaction: <verdict> <presence> | <dump of pair 0> | <dump of pair 1> ..
   presence: side A then B (separated by "/"), per universe id one digit per store level (root first);
   the dump of a pair is the flat dump of the view of that pair. *)
let next_hop () =
  let kind = next () in
  let w = next_int () in
  match kind with
  | "C" -> let sd = next_side () in HCreate (sd, nat_of_int w, next_id ())
  | "D" -> let sd = next_side () in HDelete (sd, nat_of_int w, next_id ())
  | _ -> toks := kind :: !toks; HLink (nat_of_int w, next_op ())

let hdump t u (h : hstate) : string =
  let buf = Buffer.create 512 in
  List.iter (fun sd ->
    if not sd then Buffer.add_string buf " /";
    let nk = int_of_nat (nkids t sd) in
    List.iter (fun x ->
      Buffer.add_char buf ' ';
      for k = 0 to nk do Buffer.add_string buf (if h.hp sd (nat_of_int k) x then "1" else "0") done) (uni u sd))
    [true; false];
  let np = int_of_nat (npairs t) in
  let cells = List.init np (fun p -> dump u (view t (nat_of_int p) h)) in
  String.concat " | " (String.trim (Buffer.contents buf) :: cells)

(* K cases: like T, with the kinds of collection each pair registers and DeleteWhere (Links/HierWhere.v)
     K <nkA> <ext>.. <nkB> <ext>.. <np> { <lvA> <lvB> <kind> }.. <universes> <ntx> { <nops> <op>.. }..
   kind := b (link collection and ref-counted link collection) | l (link collection only)
         | r (ref-counted only) | n (neither)
   op := the operations of T | DW <lv> sd - <all 0|1> <n> <id>..   DeleteWhere through the store of that level,
         filter `true` (all = 1) or membership of the id in the list *)
let next_xop () =
  match !toks with
  | "DW" :: _ ->
    let _ = next () in
    let w = next_int () in
    let sd = next_side () in
    let _ = next () in
    let all = (next () = "1") in
    XDeleteWhere (sd, nat_of_int w, all, next_ids ())
  | _ -> XOp (next_hop ())

(* CS | US <lv> sd x <pair> <n> <id>..  create / update through the store of level lv of an entity whose strategy
   persists the link field of <pair> with SetLinkedIds (Links/HierStrategy.v) *)
let next_sop () =
  match !toks with
  | ("CS" | "US") as kind :: _ ->
    let _ = next () in
    let w = next_int () in
    let sd = next_side () in
    let x = next_id () in
    let p = next_int () in
    let ids = next_ids () in
    if kind = "CS" then SCreate (sd, nat_of_int w, x, nat_of_int p, ids) else SUpdate (sd, nat_of_int w, x, nat_of_int p, ids)
  | _ -> SOp (next_xop ())

let run_hier kinded =
  let flags () = let n = next_int () in List.init n (fun _ -> next () = "1") in
  let ka = flags () in
  let kb = flags () in
  let np = next_int () in
  let prs = List.init np (fun _ ->
    let a = next_int () in let b = next_int () in
    let k = if kinded then (match next () with
      | "b" -> (true, true) | "l" -> (true, false) | "r" -> (false, true) | "n" -> (false, false)
      | s -> failwith ("bad kind " ^ s)) else (true, true) in
    ((nat_of_int a, nat_of_int b), k)) in
  let t = { kids = (fun sd -> if sd then ka else kb); pairs = List.map fst prs; kinds = List.map snd prs } in
  let ua = next_ids () in
  let ub = next_ids () in
  let u = (ua, ub) in
  let ntx = next_int () in
  let h = ref hinit in
  let blocks = ref [] in
  for _ = 1 to ntx do
    let nops = next_int () in
    let ops = List.init nops (fun _ -> next_sop ()) in
    let v = match sfirst_failure t u ops !h O with None -> "ok" | Some i -> "f" ^ string_of_int (int_of_nat i) in
    let (_, h') = run_stx t u ops !h in
    h := h';
    blocks := (v ^ " " ^ hdump t u !h) :: !blocks
  done;
  String.concat " ; " (List.rev !blocks)

let () =
  iter_lines (fun line ->
    toks := split_ws line;
    match !toks with
    | [] -> ()
    | _ ->
      (try
        match next () with
        | "H" | "Z" -> print_endline (run_history ())
        | "S" -> print_endline (run_set_links ())
        | "T" -> print_endline (run_hier false)
        | "K" -> print_endline (run_hier true)
        | _ -> print_endline "?"
      with Failure m -> print_endline ("driver-error:" ^ m)))
