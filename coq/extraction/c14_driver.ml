(* C14 driver.  Case lines (harness/cmd/storageharness/c14.go):
     C <kind> <fw> <present> <nA> A.. <nB> B.. <nops> ops..   ops = N | S<hex>
     Q <allof|anyof> <fw> <nent> (id nroles roles..).. <nvals> vals.. <nops> ops..
     B <ro|rw> <nkeys> keys.. <nops> bops..                   bops = F L N P S<hex>
     R <kind> <nseg> (rowid present nA A.. nops ops..)..      one runtime symbol re-opened row after row
     S <field> <variant> <nent> (id present nA A..).. <filter> a scan with a set filter through the cached symbol
     M <ncur> (<kind> <fw> <present> <mask> <mask2> <nA> A.. <nB> B.. <nops> ops..).. <nsched> s..
         several cursors alive at once, interleaved by the schedule (Cursor/Product.v); output: the comma separated views of all
         cursors after every turn ("-" = not opened yet), model | specification
     I <kind> <fw> <flt> <skip> <limit> <nP> P.. <nC> C.. <nF> F.. <nops> ops..
         scanners layered over cursors (Cursor/Scanner.v): IterateIds / IterateValidIds of a root store (ids, vids), a child
         store (cids, cvids), an Extended() child store (xids, xvids), "<kind>0" = the entities bucket does not exist;
         q* = QueryWithCursorC (ScanCursor).  P ids of the root store, C ids with child data, F ids the filter accepts.
         The specification side is "~" for a paged cursor that is sought (no set to speak about: model only); the model
         side is "-" for QueryWithCursorC over providers other than the entities bucket.
         filter (prefix): E | Z | =<hex> | #<hex> | A<hex> | C<n> | ! f | & f g | "|" f g
   Output: C/Q: "<model observations> | <specification observations>"; B: returned keys;
           R: the same per segment, segments separated by "/"; S: "<n> ids.." on both sides.
           The model side is "-" for the composite symbols (stackedCursor is modelled in Ast/Stacked.v, C01).
   Sub-command "legacy" runs the models of the pinned (unrepaired) code instead. *)
let tag = n_of_int 5

let obs_str = function
  | OInvalid -> "I" | OCur v -> "V" ^ hex_of_bytes v | OPanic -> "P" | OFuel -> "F"
let obs_line l = String.concat " " (List.map obs_str l)
let key_str = function None -> "I" | Some k -> "V" ^ hex_of_bytes k

let parse_op s = if s = "N" then CNext else CSeek (bytes_of_hex (String.sub s 1 (String.length s - 1)))
let parse_bop s = match s.[0] with
  | 'F' -> BFirst | 'L' -> BLast | 'N' -> BNext | 'P' -> BPrev
  | _ -> BSeek (bytes_of_hex (String.sub s 1 (String.length s - 1)))

(* token stream helpers *)
let take_set toks =
  match toks with
  | n :: rest ->
      let n = int_of_string n in
      let rec go k acc r = if k = 0 then (List.rev acc, r) else
        match r with x :: r' -> go (k - 1) (bytes_of_hex x :: acc) r' | [] -> failwith "short set" in
      go n [] rest
  | [] -> failwith "no set"
let take_ops toks =
  match toks with
  | n :: rest ->
      let n = int_of_string n in
      let rec go k acc r = if k = 0 then (List.rev acc, r) else
        match r with x :: r' -> go (k - 1) (x :: acc) r' | [] -> failwith "short ops" in
      go n [] rest
  | [] -> failwith "no ops"

(* (rowid present set) *)
let take_row toks =
  match toks with
  | id :: present :: rest ->
      let a, rest = take_set rest in
      (bytes_of_hex id, (if present = "1" then Some a else None), a), rest
  | _ -> failwith "short row"

let rec take_filter toks =
  match toks with
  | [] -> failwith "short filter"
  | t :: rest ->
      let arg () = bytes_of_hex (String.sub t 1 (String.length t - 1)) in
      (match t.[0] with
       | 'E' | 'Z' -> FP PIsEmpty, rest
       | '=' -> FP (PAnyEq (arg ())), rest
       | '#' -> FP (PAnyNeq (arg ())), rest
       | 'A' -> FP (PAllEq (arg ())), rest
       | 'C' -> FP (PCountEq (nat_of_int (int_of_string (String.sub t 1 (String.length t - 1))))), rest
       | '!' -> let f, r = take_filter rest in FNot f, r
       | '&' -> let f, r = take_filter rest in let g, r = take_filter r in FAnd (f, g), r
       | '|' -> let f, r = take_filter rest in let g, r = take_filter r in FOr (f, g), r
       | _ -> failwith "bad filter")

let ids_line l = String.concat " " (string_of_int (List.length l) :: List.map hex_of_bytes l)

let () =
  let legacy = Array.length Sys.argv > 1 && Sys.argv.(1) = "legacy" in
  iter_lines (fun line ->
    match split_ws line with
    | "B" :: _mode :: rest ->
        let keys, rest = take_set rest in
        let ops, _ = take_ops rest in
        print_endline (String.concat " " (List.map key_str (b_run keys O (List.map parse_bop ops))))
    | "C" :: kind :: fw :: present :: rest ->
        let fw = fw = "1" and present = present = "1" in
        let a, rest = take_set rest in
        let b, rest = take_set rest in
        let ops, _ = take_ops rest in
        let ops = List.map parse_op ops in
        let n = nat_of_int (List.length ops) in
        let bucket = if present then Some a else None in
        let fuel = nat_of_int (List.length a + 2) in
        let model, spec =
          match kind with
          | "raw" -> bolt_run a fw ops, spec_ops fw a ops
          | "typed" -> (if legacy then typed_run_legacy fw tag a ops else typed_run fw tag a ops), spec_ops fw a ops
          | "tb-typed" | "tb-listdir" | "tb-list" | "related" | "links" | "rclinks" | "idxval" ->
              (if legacy then handout_run_legacy fw tag bucket ops else handout_run fw tag bucket ops),
              spec_ops fw (if present then a else []) ops
          | "tb-raw" | "tb-seekable" | "idxkey" ->
              rawhand_run fw bucket ops, spec_ops fw (if present then a else []) ops
          | "setsym" | "setsymraw" -> setsym_run tag bucket ops, spec_ops fw (if present then a else []) ops
          | "empty" -> empty_run ops, spec_ops fw [] ops
          | "filtered" ->
              if present then filtered_typed_run fw tag fuel a b n, spec_next fw (List.filter (fun x -> mem x b) a) n
              else filtered_nil_run n, spec_next fw [] n
          | "union" -> union_typed_run fw tag a b n, spec_next fw (sort_dedup (a @ b)) n
          | "uniontree" -> union_tree_run fw a b n, spec_next fw (sort_dedup (a @ b)) n
          | "unionfiltered" -> union_filtered_run fw tag fuel a b n, spec_next fw (sort_dedup b) n
          | "tree" | "treecursor" ->
              (if legacy then treeset_run_legacy fw a n else treeset_run fw a n), spec_next fw (sort_dedup a) n
          | _ -> [], []
        in
        print_endline (obs_line model ^ " | " ^ obs_line spec)
    | "R" :: kind :: nseg :: rest ->
        let rec segs k acc r = if k = 0 then List.rev acc else
          let (_, bucket, a), r = take_row r in
          let ops, r = take_ops r in
          segs (k - 1) ((bucket, a, List.map parse_op ops) :: acc) r in
        let segs = segs (int_of_string nseg) [] rest in
        let join ll = String.concat " / " (List.map obs_line ll) in
        let spec = List.map (fun (b, a, ops) -> spec_ops true (match b with Some _ -> a | None -> []) ops) segs in
        let model =
          match kind with
          | "rs-tags" | "rs-tagsraw" | "rs-grps" -> join (setsym_reuse_run tag (List.map (fun (b, _, ops) -> (b, ops)) segs))
          | _ -> "-" in
        print_endline (model ^ " | " ^ join spec)
    | "M" :: ncur :: rest ->
        (* several cursors alive at once (Cursor/Product.v): the views after every turn, model | specification *)
        let rec curs k acc r = if k = 0 then (List.rev acc, r) else
          match r with
          | kind :: fw :: present :: _mask :: _mask2 :: r ->
              let fw = fw = "1" and present = present = "1" in
              let a, r = take_set r in
              let b, r = take_set r in
              let ops, r = take_ops r in
              let bucket = if present then Some a else None in
              let fuel = nat_of_int (List.length a + 2) in
              let d =
                match kind with
                | "setsym" | "setsymraw" | "gs-tags" | "gs-grps" -> DSetsym bucket
                | "tb-typed" | "tb-listdir" | "tb-list" | "related" | "links" | "rclinks" | "idxval" -> DHandout (fw, bucket)
                | "tb-raw" | "tb-seekable" | "idxkey" -> DRawhand (fw, bucket)
                | "raw" -> DBolt (fw, a)
                | "typed" -> DTyped (fw, a)
                | "ids" -> DIds (fuel, bucket)
                | "tree" -> DTree (fw, a)
                | "union" -> DUnion (fw, a, b)
                | "filtered" -> DFiltered (fw, fuel, a, b)
                | _ -> failwith ("unknown cursor kind " ^ kind) in
              curs (k - 1) ((d, List.map parse_op ops) :: acc) r
          | _ -> failwith "short cursor" in
        let progs, rest = curs (int_of_string ncur) [] rest in
        let sched, _ = take_ops rest in
        let sched = List.map (fun x -> nat_of_int (int_of_string x)) sched in
        let view v = String.concat "," (List.map (function None -> "-" | Some o -> obs_str o) v) in
        let views l = String.concat " " (List.map view l) in
        print_endline (views (multi_run tag progs sched) ^ " | " ^ views (multi_spec progs sched))
    | "S" :: field :: _variant :: nent :: rest ->
        let rec rows k acc r = if k = 0 then (List.rev acc, r) else
          let (id, bucket, _), r = take_row r in rows (k - 1) ((id, bucket) :: acc) r in
        let rows, rest = rows (int_of_string nent) [] rest in
        let f, _ = take_filter rest in
        let fuel = nat_of_int (2 + List.fold_left (fun m (_, b) -> max m (match b with Some l -> List.length l | None -> 0)) 0 rows) in
        let model =
          if String.contains field '.' then "-" else
          match scan_run tag fuel f rows with
          | Ok ids -> ids_line ids | Panic -> "P" | OutOfFuel -> "F" in
        print_endline (model ^ " | " ^ ids_line (scan_spec f rows))
    | "I" :: kind :: fw :: _flt :: skip :: limit :: rest ->
        let fw = fw = "1" in
        let p, rest = take_set rest in
        let c, rest = take_set rest in
        let f, rest = take_set rest in
        let ops, _ = take_ops rest in
        let ops = List.map parse_op ops in
        let nobkt = kind.[String.length kind - 1] = '0' in
        let base = if nobkt then String.sub kind 0 (String.length kind - 1) else kind in
        let child = List.mem base ["cids"; "cvids"; "xvids"; "qcc"] in
        let inset l x = mem x l in
        let yes _ = true in
        let matches = inset f in
        let off = if skip = "-" then O else nat_of_int (int_of_string skip) in
        let lim = if limit = "-" then None else Some (nat_of_int (int_of_string limit)) in
        let paged = skip <> "-" || limit <> "-" in
        let fuel = nat_of_int (List.length p + 2) in
        let ids = if nobkt then None else Some p in
        let universe = if nobkt then [] else p in
        let accepted = List.filter (fun x -> (not child || inset c x) && matches x) universe in
        let seeks = List.exists (function CSeek _ -> true | CNext -> false) ops in
        if String.length kind > 0 && kind.[0] = 'q' then begin
          let listed = page off lim (if fw then accepted else List.rev accepted) in
          let n = List.length ops in
          let trace l cnt =
            let toks = List.map (fun x -> "V" ^ hex_of_bytes x) l in
            let rec pad t = if List.length t < n + 1 then pad (t @ ["I"]) else t in
            String.concat " " (pad toks @ ["#" ^ string_of_int cnt]) in
          let model =
            match base with
            | "qc" | "qcc" | "qcx" ->
                (match scan_bolt_run (if base = "qcc" then inset c else yes) matches fuel off lim fw p with
                 | Ok (l, cnt) -> trace l (int_of_nat cnt) | Panic -> "P" | OutOfFuel -> "F")
            | _ -> "-" in
          print_endline (model ^ " | " ^ trace listed (List.length accepted))
        end else begin
          let model =
            match base with
            | "xvids" -> if paged then [] else valid_ids_run yes matches (inset c) fuel ids ops
            | "cids" | "cvids" -> ids_run (inset c) matches fuel off lim ids ops
            | _ -> ids_run yes matches fuel off lim ids ops in
          let spec = if paged && seeks then "~" else obs_line (spec_ops true (page off lim accepted) ops) in
          print_endline ((if model = [] then "-" else obs_line model) ^ " | " ^ spec)
        end
    | "Q" :: which :: fw :: nent :: rest ->
        let fw = fw = "1" in
        let nent = int_of_string nent in
        let rec ents k acc r = if k = 0 then (List.rev acc, r) else
          match r with
          | id :: r' -> let roles, r'' = take_set r' in ents (k - 1) ((bytes_of_hex id, roles) :: acc) r''
          | [] -> failwith "short ents" in
        let ents, rest = ents nent [] rest in
        let values, rest = take_set rest in
        let ops, _ = take_ops rest in
        let n = nat_of_int (List.length ops) in
        let ix = build_index ents in
        let fuel = nat_of_int (nent + 2) in
        let model, spec =
          if which = "allof" then allof_run tag fuel ix ents values fw n, spec_next fw (allof_ids ents values) n
          else (if legacy then anyof_run_legacy tag ix values fw n else anyof_run tag ix values fw n),
               spec_next fw (anyof_ids ents values) n in
        print_endline (obs_line model ^ " | " ^ obs_line spec)
    | [] -> ()
    | _ -> print_endline "?")
