(* C14 driver.  Case lines (harness/cmd/storageharness/c14.go):
     C <kind> <fw> <present> <nA> A.. <nB> B.. <nops> ops..   ops = N | S<hex>
     Q <allof|anyof> <fw> <nent> (id nroles roles..).. <nvals> vals.. <nops> ops..
     B <ro|rw> <nkeys> keys.. <nops> bops..                   bops = F L N P S<hex>
   Output: C/Q: "<model observations> | <specification observations>"; B: returned keys.
   Sub-command "legacy" runs the models of the pinned (unrepaired) code instead. *)
let tag = n_of_int 5

let obs_str = function
  | OInvalid -> "I" | OCur v -> "V" ^ hex_of_bytes v | OPanic -> "P" | OFuel -> "F"
let obs_line l = String.concat " " (List.map obs_str l)
let key_str = function None -> "I" | Some k -> "V" ^ hex_of_bytes k

let parse_op s = if s = "N" then CNext else CSeek (bytes_of_hex (String.sub s 1 (String.length s - 1)))
let parse_bop s = match s.[0] with
  | 'F' -> BFirst | 'L' -> BLast | 'N' -> BNext | 'P' -> BPrev
  | _ -> BSeek (bytes_of_hex (String.sub s 1 (String.length s - 1)))

(* token stream helpers *)
let take_set toks =
  match toks with
  | n :: rest ->
      let n = int_of_string n in
      let rec go k acc r = if k = 0 then (List.rev acc, r) else
        match r with x :: r' -> go (k - 1) (bytes_of_hex x :: acc) r' | [] -> failwith "short set" in
      go n [] rest
  | [] -> failwith "no set"
let take_ops toks =
  match toks with
  | n :: rest ->
      let n = int_of_string n in
      let rec go k acc r = if k = 0 then (List.rev acc, r) else
        match r with x :: r' -> go (k - 1) (x :: acc) r' | [] -> failwith "short ops" in
      go n [] rest
  | [] -> failwith "no ops"

let () =
  let legacy = Array.length Sys.argv > 1 && Sys.argv.(1) = "legacy" in
  iter_lines (fun line ->
    match split_ws line with
    | "B" :: _mode :: rest ->
        let keys, rest = take_set rest in
        let ops, _ = take_ops rest in
        print_endline (String.concat " " (List.map key_str (b_run keys O (List.map parse_bop ops))))
    | "C" :: kind :: fw :: present :: rest ->
        let fw = fw = "1" and present = present = "1" in
        let a, rest = take_set rest in
        let b, rest = take_set rest in
        let ops, _ = take_ops rest in
        let ops = List.map parse_op ops in
        let n = nat_of_int (List.length ops) in
        let bucket = if present then Some a else None in
        let fuel = nat_of_int (List.length a + 2) in
        let model, spec =
          match kind with
          | "raw" -> bolt_run a fw ops, spec_ops fw a ops
          | "typed" -> (if legacy then typed_run_legacy fw tag a ops else typed_run fw tag a ops), spec_ops fw a ops
          | "tb-typed" | "tb-listdir" | "tb-list" | "related" | "links" | "rclinks" | "idxval" ->
              (if legacy then handout_run_legacy fw tag bucket ops else handout_run fw tag bucket ops),
              spec_ops fw (if present then a else []) ops
          | "tb-raw" | "tb-seekable" | "idxkey" ->
              rawhand_run fw bucket ops, spec_ops fw (if present then a else []) ops
          | "setsym" | "setsymraw" -> setsym_run tag bucket ops, spec_ops fw (if present then a else []) ops
          | "empty" -> empty_run ops, spec_ops fw [] ops
          | "filtered" ->
              if present then filtered_typed_run fw tag fuel a b n, spec_next fw (List.filter (fun x -> mem x b) a) n
              else filtered_nil_run n, spec_next fw [] n
          | "union" -> union_typed_run fw tag a b n, spec_next fw (sort_dedup (a @ b)) n
          | "uniontree" -> union_tree_run fw a b n, spec_next fw (sort_dedup (a @ b)) n
          | "unionfiltered" -> union_filtered_run fw tag fuel a b n, spec_next fw (sort_dedup b) n
          | "tree" | "treecursor" ->
              (if legacy then treeset_run_legacy fw a n else treeset_run fw a n), spec_next fw (sort_dedup a) n
          | _ -> [], []
        in
        print_endline (obs_line model ^ " | " ^ obs_line spec)
    | "Q" :: which :: fw :: nent :: rest ->
        let fw = fw = "1" in
        let nent = int_of_string nent in
        let rec ents k acc r = if k = 0 then (List.rev acc, r) else
          match r with
          | id :: r' -> let roles, r'' = take_set r' in ents (k - 1) ((bytes_of_hex id, roles) :: acc) r''
          | [] -> failwith "short ents" in
        let ents, rest = ents nent [] rest in
        let values, rest = take_set rest in
        let ops, _ = take_ops rest in
        let n = nat_of_int (List.length ops) in
        let ix = build_index ents in
        let fuel = nat_of_int (nent + 2) in
        let model, spec =
          if which = "allof" then allof_run tag fuel ix ents values fw n, spec_next fw (allof_ids ents values) n
          else (if legacy then anyof_run_legacy tag ix values fw n else anyof_run tag ix values fw n),
               spec_next fw (anyof_ids ents values) n in
        print_endline (obs_line model ^ " | " ^ obs_line spec)
    | [] -> ()
    | _ -> print_endline "?")
