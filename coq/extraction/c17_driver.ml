(* C17 driver.  Case lines (see harness/cmd/storageharness/c17.go):
     H <nops> <op>...     -> per op: observation tokens + L[live content] (+ F[file content]), joined by " | "
     R <mode> <ms>        -> "R ok"   (the property: racing transactions see one database and terminate) *)
let toks = ref [||]
let pos = ref 0
let next () = let t = !toks.(!pos) in incr pos; t
let next_int () = int_of_string (next ())

let parse_chain () =
  let n = next_int () in
  let rec go k acc = if k = 0 then List.rev acc else let b = bytes_of_hex (next ()) in go (k - 1) (b :: acc) in
  go n []

let parse_wop () =
  match next () with
  | "put" -> let bs = parse_chain () in let k = bytes_of_hex (next ()) in let v = bytes_of_hex (next ()) in WPut (bs, k, v)
  | "del" -> let bs = parse_chain () in let k = bytes_of_hex (next ()) in WDel (bs, k)
  | "mk" -> WMk (parse_chain ())
  | "rm" -> WRm (parse_chain ())
  | s -> failwith ("bad wop " ^ s)

let parse_wops () =
  let n = next_int () in
  let rec go k acc = if k = 0 then List.rev acc else let w = parse_wop () in go (k - 1) (w :: acc) in
  go n []

let parse_mode = function "d" -> MDefault | "i" -> MInitIfEmpty | "f" -> MForceReset | s -> failwith ("bad mode " ^ s)

let parse_op () =
  match next () with
  | "tx" -> let c = next_int () = 1 in let ws = parse_wops () in OTx (ws, c)
  | "snap" ->
      (match next () with
       | "plain" -> OSnap SKPlain
       | "view" -> OSnap SKInView
       | "upd" -> let c = next_int () = 1 in let b = parse_wops () in let a = parse_wops () in OSnap (SKInUpdate (b, a, c))
       | s -> failwith ("bad snap kind " ^ s))
  | "stream" -> OStream
  | "restore" -> ORestore (nat_of_int (next_int ()))
  | "snapid" -> OGetSnapshotId
  | "tl" ->
      let m = parse_mode (next ()) in
      (match next () with
       | "ok" -> OTimeline (m, Some (bytes_of_hex (next ())))
       | _ -> OTimeline (m, None))
  | "addl" -> OAddListener
  | s -> failwith ("bad op " ^ s)

let dump (c : content) : string =
  if c = [] then "-" else
  String.concat "," (List.map (fun (p, e) ->
    let ps = String.concat "/" (List.map hex_of_bytes p) in
    match e with
    | EBucket -> "B:" ^ ps
    | EVal v -> "V:" ^ ps ^ "=" ^ hex_of_bytes v) c)

let rec last = function [] -> [] | [x] -> x | _ :: r -> last r

let show (o : op) (b : obs) (d : db) : string =
  let l = " L[" ^ dump d.live ^ "]" in
  let f () = " F[" ^ dump (last d.files) ^ "]" in
  match b with
  | ObTx ok -> (if ok then "tx ok" else "tx err") ^ l
  | ObSnap id -> "snap " ^ hex_of_bytes id ^ f () ^ l
  | ObUnit ->
      (match o with
       | OStream -> "stream" ^ f () ^ l
       | ORestore _ -> Printf.sprintf "restore fired=%d" (int_of_nat d.fired) ^ l
       | _ -> "addl" ^ l)
  | ObNoFile -> "nofile" ^ l
  | ObSnapId None -> "snapid nil" ^ l
  | ObSnapId (Some id) -> "snapid " ^ hex_of_bytes id ^ l
  | ObTimeline (id, called) ->
      Printf.sprintf "tl %s called=%d calls=%d"
        (match id with None -> "err" | Some s -> "id:" ^ hex_of_bytes s)
        (if called then 1 else 0) (int_of_nat d.idf_calls) ^ l

let () =
  iter_lines (fun line ->
    match split_ws line with
    | "H" :: rest ->
        toks := Array.of_list rest; pos := 0;
        let n = next_int () in
        let rec go k acc = if k = 0 then List.rev acc else let o = parse_op () in go (k - 1) (o :: acc) in
        let ops = go n [] in
        let res = run_obs empty_db ops in
        print_endline ("H " ^ String.concat " | " (List.map2 (fun o (b, d) -> show o b d) ops res))
    | "R" :: _ -> print_endline "R ok"
    | [] -> ()
    | _ -> print_endline "?")
