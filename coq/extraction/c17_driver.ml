(* C17 driver.  Case lines (see harness/cmd/storageharness/c17.go):
     H <nops> <op>...     -> per op: observation tokens + L[live content] (+ F[file content]), joined by " | "
     R <mode> <ms>        -> "R ok"   (the property: racing transactions see one database and terminate) *)
let toks = ref [||]
let pos = ref 0
let next () = let t = !toks.(!pos) in incr pos; t
let next_int () = int_of_string (next ())

let parse_chain () =
  let n = next_int () in
  let rec go k acc = if k = 0 then List.rev acc else let b = bytes_of_hex (next ()) in go (k - 1) (b :: acc) in
  go n []

let parse_wop () =
  match next () with
  | "put" -> let bs = parse_chain () in let k = bytes_of_hex (next ()) in let v = bytes_of_hex (next ()) in WPut (bs, k, v)
  | "del" -> let bs = parse_chain () in let k = bytes_of_hex (next ()) in WDel (bs, k)
  | "mk" -> WMk (parse_chain ())
  | "rm" -> WRm (parse_chain ())
  | s -> failwith ("bad wop " ^ s)

let parse_wops () =
  let n = next_int () in
  let rec go k acc = if k = 0 then List.rev acc else let w = parse_wop () in go (k - 1) (w :: acc) in
  go n []

let parse_mode = function "d" -> MDefault | "i" -> MInitIfEmpty | "f" -> MForceReset | s -> failwith ("bad mode " ^ s)

let parse_op () =
  match next () with
  | "tx" -> let c = next_int () = 1 in let ws = parse_wops () in OTx (ws, c)
  | "snap" ->
      (match next () with
       | "plain" -> OSnap SKPlain
       | "view" -> OSnap SKInView
       | "upd" -> let c = next_int () = 1 in let b = parse_wops () in let a = parse_wops () in OSnap (SKInUpdate (b, a, c))
       | s -> failwith ("bad snap kind " ^ s))
  | "stream" -> OStream
  | "restore" -> ORestore (nat_of_int (next_int ()))
  | "snapid" -> OGetSnapshotId
  | "tl" ->
      let m = parse_mode (next ()) in
      (match next () with
       | "ok" -> OTimeline (m, Some (bytes_of_hex (next ())))
       | _ -> OTimeline (m, None))
  | "addl" -> OAddListener
  | s -> failwith ("bad op " ^ s)

(* extended operations (Db/RestoreX.v): database-using restore listeners and RestoreFromReader
   through a scripted reader; everything else is an operation of Db/Snapshot.v *)
let parse_xop () : xop =
  match next () with
  | "addlv" -> XAddListener LView
  | "addls" -> XAddListener LSnapId
  | "addlt" -> XAddListener (LTimeline (parse_mode (next ())))
  | "addlw" -> XAddListener (LWrite (bytes_of_hex (next ())))
  | "restorer" ->
      let k = next_int () in
      let _flavour = next () in     (* how the reader is presented (Read only / WriterTo / Seeker / file ...): no influence *)
      let len = next_int () in
      let eofd = next_int () = 1 in
      let fa = (match next () with "-" -> None | s -> Some (nat_of_int (int_of_string s))) in
      let fwd = next_int () = 1 in
      let rest = next_int () in
      let np = next_int () in
      let rec go k acc = if k = 0 then List.rev acc else let x = nat_of_int (next_int ()) in go (k - 1) (x :: acc) in
      let pre = go np [] in
      XRestoreReader (nat_of_int k, nat_of_int len,
                      { pre = pre; rest = nat_of_int rest; eof_with_data = eofd; fail_at = fa; fail_with_data = fwd })
  | _ -> decr pos; XBase (parse_op ())

let dump (c : content) : string =
  if c = [] then "-" else
  String.concat "," (List.map (fun (p, e) ->
    let ps = String.concat "/" (List.map hex_of_bytes p) in
    match e with
    | EBucket -> "B:" ^ ps
    | EVal v -> "V:" ^ ps ^ "=" ^ hex_of_bytes v) c)

let fnv32 (s : string) : int =
  let h = ref 0x811c9dc5 in
  String.iter (fun ch -> h := ((!h lxor (Char.code ch)) * 0x01000193) land 0xffffffff) s;
  !h

let rec last = function [] -> [] | [x] -> x | _ :: r -> last r

let show_base (o : op) (b : obs) (d : db) : string =
  let f () = " F[" ^ dump (last d.files) ^ "]" in
  match b with
  | ObTx ok -> (if ok then "tx ok" else "tx err")
  | ObSnap id -> "snap " ^ hex_of_bytes id ^ f ()
  | ObUnit ->
      (match o with
       | OStream -> "stream" ^ f ()
       | _ -> "addl")
  | ObNoFile -> "nofile"
  | ObSnapId None -> "snapid nil"
  | ObSnapId (Some id) -> "snapid " ^ hex_of_bytes id
  | ObTimeline (id, called) ->
      Printf.sprintf "tl %s called=%d calls=%d"
        (match id with None -> "err" | Some s -> "id:" ^ hex_of_bytes s)
        (if called then 1 else 0) (int_of_nat d.idf_calls)

let show_lobs = function
  | LoCount -> "c"
  | LoView c -> Printf.sprintf "v:%d:%08x" (List.length c) (fnv32 (dump c))
  | LoSnapId None -> "s:nil"
  | LoSnapId (Some id) -> "s:" ^ hex_of_bytes id
  | LoTimeline None -> "t:err"
  | LoTimeline (Some id) -> "t:" ^ hex_of_bytes id
  | LoWrite -> "w"

let plain = function LoCount -> true | _ -> false

(* listeners that wait (Db/SnapView.v): the kinds of all registered listeners at this point of the history *)
let cur_kinds : lkind list ref = ref []

let show (o : xop) (b : xobs) (x : xdb) : string =
  let d = x.base in
  let l = " L[" ^ dump d.live ^ "]" in
  match b with
  | XoBase ob -> (match o with XBase o' -> show_base o' ob d | _ -> "addl") ^ l
  | XoRestored ls ->
      let ks = !cur_kinds in
      let waiting = List.exists (fun k -> k <> KRun) ks in
      let ret = returning ks in
      let lob i lo =
        match List.nth_opt ks i with
        | Some KBlock -> "b:waiting"                                        (* started, never returns *)
        | Some (KWait _) -> if List.nth ret i then "d" else "d:waiting"     (* returns iff what it waits for does *)
        | _ -> show_lobs lo in
      Printf.sprintf "restore fired=%d" (int_of_nat d.fired)
      ^ (if List.for_all plain ls && not waiting then ""
         else Printf.sprintf " calls=%d S[%s]" (int_of_nat d.idf_calls) (String.concat "," (List.mapi lob ls)))
      ^ l
  | XoRefused -> Printf.sprintf "restore refused fired=%d" (int_of_nat d.fired) ^ l
  | XoNoFile -> "nofile" ^ l
  | XoCorrupt -> "restore corrupt" ^ l

(* the buffers the copy loop offers: the result does not depend on them (restore_reader_independent) *)
let caps = let c = nat_of_int 32767 in fun _ -> c

(* snapshots through a path template (Db/SnapPath.v):
     snapp <t|d> <template|-> <root> <date> <time> <dir> <file> <dbpath> <-|g|d> <kind> [upd arguments]
   root: the directory the harness works in (no influence; it lets a replay re-spell absolute templates);
   g: a file of other content exists at the expanded path (no influence), d: a directory does (the call fails) *)
let parse_kind () =
  match next () with
  | "plain" -> SKPlain
  | "view" -> SKInView
  | "upd" -> let c = next_int () = 1 in let b = parse_wops () in let a = parse_wops () in SKInUpdate (b, a, c)
  | s -> failwith ("bad snap kind " ^ s)

let parse_pop () : pop =
  match next () with
  | "snapp" ->
      let flag = next () in
      let tpl = bytes_of_hex (next ()) in
      let _root = next () in
      let date = bytes_of_hex (next ()) in
      let time = bytes_of_hex (next ()) in
      let dir = bytes_of_hex (next ()) in
      let file = bytes_of_hex (next ()) in
      let path = bytes_of_hex (next ()) in
      let blocked = (match next () with "d" -> true | _ -> false) in
      let k = parse_kind () in
      let e = { e_date = date; e_time = time; e_dir = dir; e_file = file; e_path = path } in
      PSnap (e, (if flag = "d" then TDefault else TGiven tpl), blocked, k)
  | "open" -> let _ = next () in POpen
  | _ -> decr pos; PX (parse_xop ())

let pshow (o : pop) (b : pobs) (p : pdb) : string =
  let d = p.px.base in
  let l = " L[" ^ dump d.live ^ "]" in
  match b, o with
  | PoX xb, PX xo -> show xo xb p.px
  | PoSnap (path, id), PSnap (e, t, _, _) ->
      "snap " ^ hex_of_bytes id
      ^ (match t with TDefault -> " D[" ^ hex_of_bytes (default_path e) ^ "]" | TGiven _ -> "")
      ^ " P[" ^ hex_of_bytes path ^ "] W[1] X[-] F[" ^ dump (last d.files) ^ "]" ^ l
  | PoSnapFailed, PSnap (e, t, _, _) ->
      "snap failed"
      ^ (match t with TDefault -> " D[" ^ hex_of_bytes (default_path e) ^ "]" | TGiven _ -> "")
      ^ " P[-] W[0] X[-]" ^ l
  | PoOpen, _ -> "open" ^ l
  | _, _ -> "?" ^ l

(* metadata calls made by the reader of a restore / as operations of their own (Db/RestoreMeta.v):
     restorec <reader script as for restorer> <ncb> { <at> <call> }...      call <call>
     call := s | t <mode> ok <hex> | t <mode> err | v | st | dp *)
let parse_mcall () : mcall =
  match next () with
  | "s" -> MSnapId
  | "t" ->
      let m = parse_mode (next ()) in
      (match next () with
       | "ok" -> MTimeline (m, Some (bytes_of_hex (next ())))
       | _ -> MTimeline (m, None))
  | "v" -> MView
  | "st" -> MStats
  | "dp" -> MDefaultPath
  | s -> failwith ("bad call " ^ s)

let parse_mop () : mop =
  match next () with
  | "restorec" ->
      decr pos; !toks.(!pos) <- "restorer";
      (match parse_xop () with
       | XRestoreReader (k, len, sc) ->
           let n = next_int () in
           let rec go i acc =
             if i = 0 then List.rev acc
             else let at = nat_of_int (next_int ()) in let c = parse_mcall () in go (i - 1) ((at, c) :: acc) in
           MRestoreReader (k, len, sc, go n [])
       | _ -> failwith "bad restorec")
  | "call" -> MCall (parse_mcall ())
  | _ -> decr pos; MP (parse_pop ())

let show_mobs (c : mcall) (o : mobs) : string =
  match o with
  | MoSnapId None -> "s:nil"
  | MoSnapId (Some id) -> "s:" ^ hex_of_bytes id
  | MoTimeline (None, called) -> Printf.sprintf "t:err:%d" (if called then 1 else 0)
  | MoTimeline (Some id, called) -> Printf.sprintf "t:%s:%d" (hex_of_bytes id) (if called then 1 else 0)
  | MoView seen -> Printf.sprintf "v:%d:%08x" (List.length seen) (fnv32 (dump seen))
  | MoUnit -> (match c with MStats -> "st:1" | _ -> "dp:1")

(* the calls that were made: those placed within what the reader hands out, in order *)
let made (o : mop) : mcall list =
  match o with
  | MRestoreReader (_, len, sc, cbs) -> due sc len cbs
  | _ -> []

let mshow (o : mop) (b : mxobs) (p : pdb) : string =
  let l = " L[" ^ dump p.px.base.live ^ "]" in
  match b, o with
  | MoP pb, MP po -> pshow po pb p
  | MoCall ob, MCall c -> show_mobs c ob ^ l
  | MoRestore (_, XoNoFile), _ -> "nofile" ^ l
  | MoRestore (os, xb), MRestoreReader (k, len, sc, _) ->
      let body = show (XRestoreReader (k, len, sc)) xb p.px in
      (* the calls go between the restore's own observation and the live content *)
      let cut = String.length body - String.length l in
      let c = if os = [] then "-" else String.concat "," (List.map2 show_mobs (made o) os) in
      String.sub body 0 cut ^ " C[" ^ c ^ "]" ^ l
  | _, _ -> "?" ^ l

(* the seventh wave's operations (Db/SnapView.v):
     snap stale <commit> <wops>    SnapshotInTx inside a read transaction opened before another goroutine's transaction
     addlb / addld <j>             restore listeners that block for good / return once listener j has returned *)
let parse_vop () : vop =
  match next () with
  | "addlb" -> VAddListener KBlock
  | "addld" -> VAddListener (KWait (nat_of_int (next_int ())))
  | "snap" when !toks.(!pos) = "stale" ->
      let _ = next () in
      let c = next_int () = 1 in
      let ws = parse_wops () in
      VSnapStale (ws, c)
  | _ -> decr pos; VM (parse_mop ())

let vshow (o : vop) (b : vobs) (v0 : vdb) (v : vdb) : string =
  cur_kinds := v.kinds;
  let d = v.vm.px.base in
  let l = " L[" ^ dump d.live ^ "]" in
  match b, o with
  | VoM mb, VM mo -> mshow mo mb v.vm
  | VoM _, VAddListener _ -> "addl" ^ l
  | VoSnapStale (id, ok), _ ->
      (* V: what the old read transaction saw = what was committed when it began *)
      "snap " ^ hex_of_bytes id ^ " F[" ^ dump (last d.files) ^ "] V[" ^ dump v0.vm.px.base.live ^ "] T[" ^ (if ok then "1" else "0") ^ "]" ^ l
  | _, _ -> "?" ^ l

let () =
  iter_lines (fun line ->
    match split_ws line with
    | "H" :: rest ->
        toks := Array.of_list rest; pos := 0;
        let n = next_int () in
        let rec go k acc = if k = 0 then List.rev acc else let o = parse_vop () in go (k - 1) (o :: acc) in
        let ops = go n [] in
        let rec run v ops acc =
          match ops with
          | [] -> List.rev acc
          | o :: r -> let (v', b) = vstep caps v o in run v' r (vshow o b v v' :: acc) in
        print_endline ("H " ^ String.concat " | " (run empty_vdb ops []))
    | "R" :: _ -> print_endline "R ok"
    | [] -> ()
    | _ -> print_endline "?")
