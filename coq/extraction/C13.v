From Coq Require Import Extraction ExtrOcamlBasic NArith ZArith.
From Storage Require Import Base.Bytes Codec.CodecBase Codec.Varint Codec.CompoundKey Codec.FieldCodec Codec.Containers Codec.Persist Codec.Getters Codec.CheckerRepr.
Extraction Language OCaml.
Definition force_types : nat * N * Z := (O, 0%N, 0%Z).
Extraction "c13_model.ml" force_types
  put_uvarint uvarint encode_string_slice decode_string_slice decode_next
  get_type_and_value read_string read_bool read_int32 read_int64 read_float64 read_time
  encode_scalar decode_scalar widen
  apply_op apply_ops get_node entries_of get_marshaled get_map get_list get_string_list
  get_string get_bool get_int32 get_int64 get_float64 get_time
  map_field_checker mapped_field_checker with_field_overrides proceed
  get_and_set_string_out get_and_set_string_list_out b_put b_put_bucket place
  get_path ensure_path at_path node_at parent_context override_context resolve init_slots level_path
  ctx_write apply_write step run trace persist persist_trace
  get_string_with_default get_string_or_error get_bool_with_default get_int32_with_default get_int64_with_default
  get_time_or_default get_time_or_error is_string_list_empty child_buckets names_set copy_bucket copy_paths prune
  repr_checker repr_selects.
