(* C01 driver.  Case lines (see harness/cmd/storageharness/c01.go):
     S <schema>          -> "S"           sets the schema for the following lines
     D <dataset>         -> "D"           sets the dataset
     Q <store> <text> <term>  -> "R ok <ids by model eval> <ids by iterate model> <ids by spec>" | "R err" | "R panic"
     F <float64 bits>    -> "F <hex of the number -> string coercion>"   (fmt_float_go vs strconv.FormatFloat(v,'f',-1,64))
     T <store> <F|R|A> <api> <universe ids|*> <sort hex|-> <status> <ids> <count|-> <text> <term>
                         -> "T agree" | "T viol <why> <matching ids> <page length>"
                            the answer a scan strategy gave (observed by the harness, part of the case line), judged by
                            strategy_check (Ast/ChildStore.v) against the matching set of the unpaged filter
     M <store> <F|R|A> <Q|C|I|N> <universe|*> <effective sort|-> <status> <ids> <count|-> <text> <n> <mutator>* <term>
                         -> "M agree" | "M viol <why> <matching ids> <page length>"
                            an earlier caller of a session (Ast/Session.v): Parse(text), the mutators of ast.Query
                            (P <text> <predicate term> | K <skip> | L <limit> | A <sort>; X <text> = meanwhile
                            another caller runs QueryIds(text): no event of this caller), then the evaluation of the
                            object through one api; the answer is judged by strategy_check against the REFINED query
                            (refine).  Nothing of an M line is remembered: the lines that follow are judged by their
                            own text, schema and dataset alone (session_history_irrelevant).
   An S line may end with  H <n> (<child store> <parent store> <0|1 extended> <npath> <path..>)*  : the listed stores
   are child stores; their declaration on the S line holds their OWN symbols, what they expose is child_decl
   (GrantSymbols), what they contain is child_db (both Ast/ChildStore.v).
   The number -> string coercion of floats is the modelled formatter fmt_float_go (Ast/FmtFloat.v).
   Trusted for the correspondence check only. *)

exception Parse_error of string

let toks : string list ref = ref []
let next () = match !toks with
  | [] -> raise (Parse_error "unexpected end of line")
  | t :: r -> toks := r; t
let next_int () = int_of_string (next ())
let next_bytes () = bytes_of_hex (next ())
let rec times n f = if n <= 0 then [] else let x = f () in x :: times (n - 1) f

let parse_ty () = match next () with
  | "b" -> TBool | "d" -> TDatetime | "f" -> TFloat64 | "i" -> TInt64 | "s" -> TString | "a" -> TAny
  | t -> raise (Parse_error ("type " ^ t))
let parse_linked () = match next () with "-" -> None | s -> Some (nat_of_int (int_of_string s))

let parse_schema () : schema =
  let nstores = next_int () in
  times nstores (fun () ->
    let nsyms = next_int () in
    let syms = times nsyms (fun () ->
      match next () with
      | "id" -> let n = next_bytes () in (n, DId)
      | "fld" ->
          let n = next_bytes () in let ty = parse_ty () in
          let np = next_int () in let pfx = times np next_bytes in
          let key = next_bytes () in let lk = parse_linked () in
          (n, DField (ty, pfx, key, lk))
      | "set" ->
          let n = next_bytes () in let ty = parse_ty () in
          let key = next_bytes () in let lk = parse_linked () in
          (n, DSet (ty, key, lk))
      | t -> raise (Parse_error ("sym " ^ t))) in
    let nmaps = next_int () in
    let maps = times nmaps (fun () ->
      let n = next_bytes () in let ty = parse_ty () in
      let np = next_int () in let pfx = times np next_bytes in
      let key = next_bytes () in
      (n, { m_ty = ty; m_prefix = pfx; m_key = key })) in
    { st_syms = syms; st_maps = maps })

let parse_hier () : childdecl list =
  match !toks with
  | "H" :: r ->
      toks := r;
      let n = next_int () in
      times n (fun () ->
        let c = nat_of_int (next_int ()) in let p = nat_of_int (next_int ()) in
        let ext = next () = "1" in
        let np = next_int () in let path = times np next_bytes in
        { ch_store = c; ch_parent = p; ch_path = path; ch_ext = ext })
  | _ -> []

(* the schema the stores expose: child stores get their parent's symbols (child_decl) *)
let apply_hier (sch : schema) (h : childdecl list) : schema =
  let arr = Array.of_list sch in
  List.iter (fun c ->
    let ci = int_of_nat c.ch_store and pi = int_of_nat c.ch_parent in
    arr.(ci) <- child_decl c.ch_path arr.(pi) arr.(ci)) h;
  Array.to_list arr

let parse_sval () : sval =
  let t = next () in
  let rest = String.sub t 1 (String.length t - 1) in
  match t.[0] with
  | 'n' -> VNil
  | 'b' -> VBool (rest = "1")
  | 'w' -> VInt32 (z_of_dec rest)
  | 'i' -> VInt64 (z_of_dec rest)
  | 'f' -> VFloat (n_of_hex64 rest)
  | 's' -> VStr (bytes_of_hex rest)
  | 't' -> (match String.split_on_char ':' rest with
            | [a; b] -> VTime (z_of_dec a, z_of_dec b)
            | _ -> raise (Parse_error "time"))
  | _ -> raise (Parse_error ("sval " ^ t))

let parse_dataset () : (n list * entity) list list =
  let nstores = next_int () in
  times nstores (fun () ->
    let nent = next_int () in
    times nent (fun () ->
      let id = next_bytes () in
      let nf = next_int () in
      let fields = times nf (fun () ->
        let np = next_int () in let path = times np next_bytes in
        let v = parse_sval () in (path, v)) in
      let ns = next_int () in
      let sets = times ns (fun () ->
        let key = next_bytes () in let k = next_int () in
        let els = times k parse_sval in (key, els)) in
      (id, { e_fields = fields; e_sets = sets })))

let parse_op () = match next () with
  | "eq" -> OpEQ | "neq" -> OpNEQ | "lt" -> OpLT | "lte" -> OpLTE | "gt" -> OpGT | "gte" -> OpGTE
  | "contains" -> OpContains | "ncontains" -> OpNotContains | "icontains" -> OpIContains | "nicontains" -> OpNotIContains
  | t -> raise (Parse_error ("op " ^ t))

let parse_lit () = match next () with
  | "S" -> LStr (next_bytes ())
  | "I" -> LInt (z_of_dec (next ()))
  | "F" -> LFloat (n_of_hex64 (next ()))
  | "D" -> let s = z_of_dec (next ()) in let n = z_of_dec (next ()) in LDate (s, n)
  | "B" -> LBool (next () = "1")
  | "N" -> LNull
  | t -> raise (Parse_error ("lit " ^ t))

let parse_arr () = match next () with
  | "AS" -> let k = next_int () in AStr (times k next_bytes)
  | "AN" -> let k = next_int () in ANum (times k parse_lit)
  | "AD" -> let k = next_int () in
      ADate (times k (fun () -> let s = z_of_dec (next ()) in let n = z_of_dec (next ()) in (s, n)))
  | t -> raise (Parse_error ("arr " ^ t))

let parse_optz () = match next () with "-" -> None | s -> Some (z_of_dec s)

let rec parse_untyped () : untyped =
  match next () with
  | "bin" -> let l = parse_lhs () in let op = parse_op () in let r = parse_lit () in UBin (l, op, r)
  | "in" -> let neg = next () = "1" in let l = parse_lhs () in let a = parse_arr () in UIn (neg, l, a)
  | "btw" -> let neg = next () = "1" in let l = parse_lhs () in
      let lo = parse_lit () in let hi = parse_lit () in UBetween (neg, l, lo, hi)
  | "empty" -> UIsEmpty (parse_setexpr ())
  | "bc" -> UBoolConst (next () = "1")
  | "nopred" -> UBoolConst true   (* a query without a predicate ("", sort by .., skip .., limit ..) selects everything *)
  | "bs" -> UBoolSym (next_bytes ())
  | "not" -> UNot (parse_untyped ())
  | "and" -> let a = parse_untyped () in let b = parse_untyped () in UAnd (a, b)
  | "or" -> let a = parse_untyped () in let b = parse_untyped () in UOr (a, b)
  | "q" -> let p = parse_untyped () in let s = parse_optz () in let l = parse_optz () in UQuery (p, s, l)
  | t -> raise (Parse_error ("term " ^ t))
and parse_lhs () : untyped lhs =
  match next () with
  | "sym" -> LSym (next_bytes ())
  | "all" -> LAllOf (next_bytes ())
  | "any" -> LAnyOf (next_bytes ())
  | "cnt" -> LCount (parse_setexpr ())
  | t -> raise (Parse_error ("lhs " ^ t))
and parse_setexpr () : untyped setexpr =
  match next () with
  | "sym" -> SESym (next_bytes ())
  | "sub" -> let n = next_bytes () in let q = parse_untyped () in SESub (n, q)
  | t -> raise (Parse_error ("setexpr " ^ t))

(* the extracted formatter is a pure function of the bit pattern; the evaluator calls it once per row and
   comparison, so its results are cached here (per 64-bit pattern) *)
let fmt_cache : (int64, n list) Hashtbl.t = Hashtbl.create 257
let fmt_float_go_memo (b : n) : n list =
  let k = u64_of_n b in
  match Hashtbl.find_opt fmt_cache k with
  | Some s -> s
  | None -> let s = fmt_float_go b in Hashtbl.add fmt_cache k s; s

let ids_str (l : n list list) : string =
  if l = [] then "-" else String.concat "," (List.map hex_of_bytes l)

let () =
  let schema : schema ref = ref [] in
  let data : (n list * entity) list array ref = ref [||] in
  let hier : childdecl list ref = ref [] in
  let base_db (s : nat) = let i = int_of_nat s in if i < Array.length !data then !data.(i) else [] in
  let view : (int, (n list * entity) list) Hashtbl.t = Hashtbl.create 7 in
  let db (s : nat) =
    if !hier = [] then base_db s else
    let i = int_of_nat s in
    match Hashtbl.find_opt view i with
    | Some l -> l
    | None -> let l = child_db !hier base_db s in Hashtbl.add view i l; l in
  let parse_ids () = match next () with
    | "-" -> []
    | t -> List.map bytes_of_hex (String.split_on_char ',' t) in
  iter_lines (fun line ->
    toks := split_ws line;
    match !toks with
    | [] -> ()
    | "S" :: r ->
        toks := r;
        let raw = parse_schema () in
        hier := parse_hier ();
        schema := apply_hier raw !hier;
        Hashtbl.reset view;
        print_endline "S"
    | "D" :: r -> toks := r; data := Array.of_list (parse_dataset ()); Hashtbl.reset view; print_endline "D"
    | "T" :: r ->
        toks := r;
        let store = nat_of_int (next_int ()) in
        let kind = (match next () with "F" -> OFwd | "R" -> ORev | _ -> OAny) in
        let _api = next () in
        let univ = (match !toks with "*" :: r' -> toks := r'; None | _ -> Some (parse_ids ())) in
        let _sort = next () in
        let status = next () in
        let ids = parse_ids () in
        let count = (match next () with "-" -> None | c -> Some (z_of_dec c)) in
        let _text = next () in
        let u = parse_untyped () in
        let m () = matching fmt_float_go_memo fmt_time_none !schema db store univ u in
        let plen l = List.length (page (match u with UQuery (_, s, _) -> s | _ -> None)
                                       (match u with UQuery (_, _, l) -> l | _ -> None) l) in
        (match typer !schema store u, status with
         | Panic, _ -> print_endline "T viol model-panic - 0"
         | Err, "err" -> print_endline "T agree"
         | Err, "ok" ->
             (* a filter the typing rules reject was accepted: judge the answer by the documented semantics *)
             if strategy_check fmt_float_go_memo fmt_time_none !schema db store kind univ u ids count
             then print_endline "T viol accepted - 0"
             else Printf.printf "T viol accepted-ids %s %d\n" (ids_str (m ())) (plen (m ()))
         | Err, _ -> Printf.printf "T viol panic %s 0\n" (ids_str (m ()))
         | Ok _, "ok" ->
             if strategy_check fmt_float_go_memo fmt_time_none !schema db store kind univ u ids count
             then print_endline "T agree"
             else begin
               let mm = m () in
               (* which part of the answer is wrong: the ids (judged without the count), otherwise the count *)
               let ids_ok = strategy_check fmt_float_go_memo fmt_time_none !schema db store kind univ u ids None in
               let why = if ids_ok then "count" else "ids" in
               Printf.printf "T viol %s %s %d\n" why (ids_str mm) (plen mm)
             end
         | Ok _, "err" -> Printf.printf "T viol rejected %s 0\n" (ids_str (m ()))
         | Ok _, _ -> Printf.printf "T viol panic %s 0\n" (ids_str (m ())))
    | "M" :: r ->
        toks := r;
        let store = nat_of_int (next_int ()) in
        let kind = (match next () with "F" -> OFwd | "R" -> ORev | _ -> OAny) in
        let api = next () in
        let univ = (match !toks with "*" :: r' -> toks := r'; None | _ -> Some (parse_ids ())) in
        let _sort = next () in
        let status = next () in
        let ids = parse_ids () in
        let count = (match next () with "-" -> None | c -> Some (z_of_dec c)) in
        let _text = next () in
        let nm = next_int () in
        let muts = List.concat (times nm (fun () ->
          match next () with
          | "P" -> let _t = next () in [MSetPredicate (parse_untyped ())]
          | "K" -> [MSetSkip (z_of_dec (next ()))]
          | "L" -> [MSetLimit (z_of_dec (next ()))]
          | "A" -> let _s = next () in [MAdoptSort]
          (* meanwhile ANOTHER caller parses and evaluates a query of its own: not an event of this caller
             (session_interleaving_independent, caller_view_own_events) *)
          | "X" -> let _t = next () in []
          | t -> raise (Parse_error ("mutator " ^ t)))) in
        let u0 = parse_untyped () in
        let u = refine u0 muts in
        (* every text the caller parses has to be well-typed on its own, otherwise ast.Parse fails *)
        let well_typed x = (match typer !schema store x with Ok _ -> true | _ -> false) in
        let parts_ok = well_typed u0 &&
          List.for_all (fun m -> match m with MSetPredicate p -> well_typed (UQuery (p, None, None)) | _ -> true) muts in
        let kind = if api = "I" then OFwd else kind in
        let m () = matching fmt_float_go_memo fmt_time_none !schema db store univ u in
        let plen l = List.length (page (match u with UQuery (_, s, _) -> s | _ -> None)
                                       (match u with UQuery (_, _, l) -> l | _ -> None) l) in
        (match parts_ok, typer !schema store u, status with
         | _, Panic, _ -> print_endline "M viol model-panic - 0"
         | true, Err, _ -> print_endline "M viol model-panic - 0"
         | false, _, "err" -> print_endline "M agree"
         | false, _, "ok" -> print_endline "M viol accepted - 0"
         | false, _, _ -> print_endline "M viol panic - 0"
         | true, Ok _, "ok" ->
             if api = "N" || strategy_check fmt_float_go_memo fmt_time_none !schema db store kind univ u ids count
             then print_endline "M agree"
             else begin
               let mm = m () in
               let ids_ok = strategy_check fmt_float_go_memo fmt_time_none !schema db store kind univ u ids None in
               Printf.printf "M viol %s %s %d\n" (if ids_ok then "count" else "ids") (ids_str mm) (plen mm)
             end
         | true, Ok _, "err" -> Printf.printf "M viol rejected %s 0\n" (ids_str (m ()))
         | true, Ok _, _ -> Printf.printf "M viol panic %s 0\n" (ids_str (m ())))
    | "Q" :: r ->
        toks := r;
        let store = nat_of_int (next_int ()) in
        let _text = next () in
        let u = parse_untyped () in
        (match typer !schema store u with
         | Err -> Printf.printf "R err %s\n" (ids_str (spec_ids fmt_float_go_memo fmt_time_none !schema db store u))
         | Panic -> print_endline "R panic"
         | Ok t ->
             let q = query_ids fmt_float_go_memo fmt_time_none !schema db store t in
             let it = iterate_ids fmt_float_go_memo fmt_time_none !schema db store t in
             let sp = spec_ids fmt_float_go_memo fmt_time_none !schema db store u in
             let show = function Ok l -> ids_str l | Err -> "err" | Panic -> "panic" in
             Printf.printf "R ok %s %s %s\n" (show q) (show it) (ids_str sp))
    | "F" :: r -> toks := r; Printf.printf "F %s\n" (hex_of_bytes (fmt_float_go (n_of_hex64 (next ()))))
    | _ -> print_endline "?")
