(* C10 driver.  Case lines (harness c10.go):   Q <stream> <runes> <typings>
   runes: code points, hex, '.'-separated ('-' = empty); xHH = a raw byte that is not part of a well-formed UTF-8
   sequence: the input stream of the lexer ([]rune of the Go string) holds U+FFFD for it.
   Output:  Q <tokens k:start:len,...> e<number of dropped regions> <sentence>
   sentence: for inputs whose tokens are all skeleton tokens (identifier, and, or, not, parentheses, WS)
   and without dropped regions: 1 if the boolExpr model accepts the token sequence as a filter and
   every identifier is one of a, b, c (boolean symbols of the harness), u if it accepts it but other
   identifiers occur, 0 if it is not a sentence; '-' when the model parser does not cover the input. *)
let runes_of (s : string) : n list =
  if s = "-" then [] else
    List.map (fun h -> if String.length h > 0 && h.[0] = 'x' then n_of_int 0xFFFD else n_of_int (int_of_string ("0x" ^ h)))
      (String.split_on_char '.' s)

let rec len = function [] -> 0 | _ :: r -> 1 + len r

let () =
  iter_lines (fun line ->
    match split_ws line with
    | "Q" :: _stream :: runes :: _ ->
        let s = runes_of runes in
        let segs = lex_full s in
        let pos = ref 0 in
        let toks = ref [] and drops = ref 0 in
        List.iter (fun sg ->
          match sg with
          | Tok (k, t) ->
              let l = len t in
              toks := Printf.sprintf "%d:%d:%d" (int_of_nat k) !pos l :: !toks;
              pos := !pos + l
          | Drop t -> incr drops; pos := !pos + len t) segs;
        let tokstr = if !toks = [] then "-" else String.concat "," (List.rev !toks) in
        let ts = toks_of segs in
        let skeleton = !drops = 0 && List.for_all (fun t -> match t with TOther _ -> false | _ -> true) ts in
        let known = List.for_all (fun t -> match t with
            | TId n -> (match n with [c] -> let i = int_of_n c in i >= 97 && i <= 99 | _ -> false)
            | _ -> true) ts in
        let sentence =
          if not skeleton then "-"
          else match compile fixed_prec ts with Some _ -> (if known then "1" else "u") | None -> "0" in
        Printf.printf "Q %s e%d %s\n" tokstr !drops sentence
    | "W" :: _what :: runes :: _ ->
        (* the harness's population of blank-like characters (from Go's unicode tables): how many of them are in the table
           blank_like_foreign of Lang/ForeignBlank.v, start no token, end no token, are no grammar white space; the size
           of the table *)
        let rs = runes_of runes in
        let count p = List.length (List.filter p rs) in
        let in_table c = List.exists (fun x -> int_of_n x = int_of_n c) blank_like_foreign in
        Printf.printf "W t%d s%d e%d w%d n%d\n" (count in_table) (count starts_no_token) (count ends_no_token)
          (count (fun c -> not (is_ws c))) (List.length blank_like_foreign)
    | [] -> ()
    | _ -> print_endline "?")
