From Coq Require Import Extraction ExtrOcamlBasic NArith ZArith.
From Storage Require Import Base.Bytes Lang.Tokens Lang.Lexer Lang.Regex Lang.LexerFull Lang.BoolGrammar Lang.Listener Lang.ForeignBlank.
Extraction Language OCaml.
Definition force_types : nat * N * Z := (O, 0%N, 0%Z).
Extraction "c10_model.ml" force_types lex_full lex_skeleton toks_of drops_of compile fixed_prec seg_text blank_like_foreign starts_no_token ends_no_token is_ws.
