From Coq Require Import Extraction ExtrOcamlBasic NArith ZArith List.
From Storage Require Import Base.Bytes Ast.F64 Ast.Values Ast.Schema Ast.Untyped Ast.Typed Ast.Typer Ast.Eval Ast.Spec Ast.FmtFloat Ast.ChildStore Ast.Session.
Extraction Language OCaml.
Definition force_types : nat * N * Z := (O, 0%N, 0%Z).
Extraction "c01_model.ml" force_types typer query_ids iterate_ids spec_ids spec fmt_float_int fmt_float_go fmt_time_none
  resolve of_int64 dec feq flt child_db child_decl strategy_check matching page refine unpaged.
