(* Store-family driver for C15 / C16 (sub-command "storex" of the harness, store_x1516.go): the parser and the
   fact printer are those of store_driver.ml; in addition, per transaction, the tokens
     I:<store>:<ids>  QS:<store>:<ids>      = query_ids (IterateIds / sorted QueryIds use the same child filter)
     LF:<store>:<id>:<field>:<val>          = get_field through <store> for every loadable id (the child sees the
                                              parent's fields), isSystem as b0/b1
     QP:<store>:<api>:<filter>:<sort>:<dir>:<skip>:<limit>:<count>:<ids>   paged / sorted / counted queries of C15
                                              (c15_paged_tokens below; Store/Paging.v) *)
let name_of_string (s : string) : n list =
  List.init (String.length s) (fun i -> n_of_int (Char.code s.[i]))
let string_of_name (l : n list) : string =
  String.concat "" (List.map (fun b -> String.make 1 (Char.chr (int_of_n b))) l)

let toks = ref [||]
let pos = ref 0
let next () = let t = !toks.(!pos) in incr pos; t
let peek () = if !pos < Array.length !toks then Some !toks.(!pos) else None
let next_int () = int_of_string (next ())
let next_bool () = next () = "1"
let next_name () = name_of_string (next ())
let next_hex () = bytes_of_hex (next ())
let rec repeat k f = if k <= 0 then [] else let x = f () in x :: repeat (k - 1) f

let parse_cons () =
  match next () with
  | "U" -> let f = next_name () in let nl = next_bool () in CUnique (f, nl)
  | "SI" -> CSetIdx (next_name ())
  | "FI" -> let f = next_name () in let t = next_name () in let b = next_name () in let nl = next_bool () in CFkIndex (f, t, b, nl)
  | "FR" -> CFkRestrict (next_name ())
  | "FC" -> let f = next_name () in let t = next_name () in let nl = next_bool () in CFkCons (f, t, nl)
  | "CA" -> let r = next_name () in let f = next_name () in let c = (match next () with "D" -> CascDelete | _ -> CascNone) in CFkCascade (r, f, c)
  | "SY" -> CSystem
  | t -> failwith ("bad cons " ^ t)

let parse_store () =
  (match next () with "ST" -> () | t -> failwith ("expected ST got " ^ t));
  let nm = next_name () in
  let parent = (match next () with "-" -> None | p -> Some (name_of_string p)) in
  let ext = next_bool () in
  let nf = next_int () in
  let fields = repeat nf (fun () -> let f = next_name () in let p = next_bool () in (f, p)) in
  let ns = next_int () in
  let sets = repeat ns next_name in
  let nc = next_int () in
  let cons = repeat nc parse_cons in
  let nl = next_int () in
  let links = repeat nl (fun () -> let a = next_name () in let b = next_name () in let c = next_name () in ((a, b), c)) in
  { sd_name = nm; sd_parent = parent; sd_ext = ext; sd_fields = fields; sd_sets = sets; sd_cons = cons; sd_links = links }

let parse_fv () =
  let n = next_int () in
  repeat n (fun () -> let f = next_name () in let v = (match next () with "N" -> None | h -> Some (bytes_of_hex h)) in (f, v))
let parse_sv () =
  let n = next_int () in
  repeat n (fun () -> let f = next_name () in let k = next_int () in let l = repeat k next_hex in (f, l))
let parse_change () = match next () with "C" -> Created | "U" -> Updated | _ -> Deleted

let parse_op () =
  match next () with
  | "C" -> let s = next_name () in let i = next_hex () in let sys = next_bool () in let fv = parse_fv () in let sv = parse_sv () in OCreate (s, i, sys, fv, sv)
  | "UP" -> let s = next_name () in let i = next_hex () in let fv = parse_fv () in let sv = parse_sv () in
      let ch = (match next () with "-" -> None | k -> Some (repeat (int_of_string k) next_name)) in
      OUpdate (s, i, fv, sv, ch)
  | "D" -> let s = next_name () in let i = next_hex () in ODelete (s, i)
  | "AL" -> let s = next_name () in let i = next_hex () in let lf = next_name () in let k = next_int () in let ts = repeat k next_hex in OAddLinks (s, i, lf, ts)
  | "RL" -> let s = next_name () in let i = next_hex () in let lf = next_name () in let k = next_int () in let ts = repeat k next_hex in ORemoveLinks (s, i, lf, ts)
  | "FAIL" -> OFail
  | t -> failwith ("bad op " ^ t)

(* derived operation DeleteWhere (Store/XOps.v XDeleteWhere, the definitions of C07; same tokens as store_driver.ml):
   DW <store> T | DW <store> EQ <field> <hexvalue> *)
let parse_xop () =
  match peek () with
  | Some "DW" ->
      ignore (next ());
      let s = next_name () in
      (match next () with
       | "T" -> XDeleteWhere (s, DwTrue)
       | "EQ" -> let f = next_name () in let v = next_hex () in XDeleteWhere (s, DwFieldEq (f, v))
       | t -> failwith ("bad DW filter " ^ t))
  | Some "G" ->
      (* guarded create / update (Store/XOps.v XPersist; same tokens as store_driver.ml):
         G <badtags> <k> (<store> <field>)*k <C .. | UP ..> *)
      ignore (next ());
      let bt = next_bool () in
      let k = next_int () in
      let req = repeat k (fun () -> let s = next_name () in let f = next_name () in (s, f)) in
      XPersist (bt, req, parse_op ())
  | _ -> XBase (parse_op ())

(* a transaction whose body holds plain operations only is a [tx] as before (and may be a mixed transaction / a restore
   step of C16); one with a DeleteWhere runs through run_xtx - by XOpsProofs.run_xtx_is_run_tx it is the plain
   transaction of its flattening *)
let parse_tx () =
  (match next () with "TX" -> () | t -> failwith ("expected TX got " ^ t));
  let sys = next_bool () in
  let pcf = next_bool () in
  let nv = next_int () in
  let vetoes = repeat nv (fun () -> let s = next_name () in let c = parse_change () in let i = next_hex () in ((s, c), i)) in
  let no = next_int () in
  let xops = repeat no parse_xop in
  if List.for_all (function XBase _ -> true | _ -> false) xops then
    `Plain { tx_sys = sys; tx_vetoes = vetoes; tx_ops = List.map (function XBase o -> o | _ -> OFail) xops; tx_precommit_fails = pcf }
  else
    `Derived { xtx_sys = sys; xtx_vetoes = vetoes; xtx_ops = xops; xtx_precommit_fails = pcf }

(* C16 mixed transactions (Store/SystemMixed.v, harness store_c16s.go): the pseudo veto  @m C <mode string>  carries three
   characters per operation: context (b = the transaction's base context, s / n / u = a system context derived from it,
   x / y = a fresh ordinary / system context on the same bolt transaction),
   swallow (w), decoration of the entity (not modelled: the machine has no timestamps / tags / Migrate) *)
let mixed_modes (t : tx) : string option =
  List.fold_left (fun acc ((s, _), i) -> if string_of_name s = "@m" then Some (string_of_name i) else acc) None t.tx_vetoes

let mtx_of (t : tx) (ms : string) : mtx =
  let mops = List.mapi (fun k o ->
    let c = if 3 * k < String.length ms then ms.[3 * k] else 'b' in
    let w = 3 * k + 1 < String.length ms && ms.[3 * k + 1] = 'w' in
    { m_sys = (c = 's' || c = 'n' || c = 'u' || c = 'y' || (c <> 'x' && t.tx_sys)); m_swallow = w; m_op = o }) t.tx_ops in
  { mt_vetoes = t.tx_vetoes; mt_ops = mops; mt_precommit_fails = t.tx_precommit_fails }

(* C16 restore steps (Store/SystemRestore.v, harness store_c16w2.go): a pseudo transaction without operations that carries the
   pseudo veto  @rs C <"k:mode">  = the database content becomes what it was after the first k steps of the history; the
   mode (which API / which store objects) is not modelled: the content is all there is *)
let restore_of (t : tx) : int option =
  List.fold_left (fun acc ((s, _), i) ->
    if string_of_name s = "@rs" then begin
      let v = string_of_name i in
      let ks = (match String.index_opt v ':' with Some p -> String.sub v 0 p | None -> v) in
      Some (int_of_string ks)
    end else acc) None t.tx_vetoes

let hstep_of (t : tx) : hstep =
  match restore_of t with
  | Some k -> HRestore (nat_of_int k)
  | None -> (match mixed_modes t with None -> HTx t | Some ms -> HMtx (mtx_of t ms))

let fval_str = function
  | FAbsent -> "absent" | FNil -> "nil" | FStr s -> "s" ^ hex_of_bytes s | FBool b -> if b then "b1" else "b0"

let kind_str = function
  | None -> "ok" | Some EDuplicate -> "dup" | Some ENotFound -> "notfound" | Some ERefExists -> "refexists"
  | Some EOther -> "err" | Some EOutOfFuel -> "FUEL"

let change_str = function Created -> "C" | Updated -> "U" | Deleted -> "D"

let facts (sch : sdef list) (st : state) : string list =
  let out = ref [] in
  let add s = out := s :: !out in
  List.iter (fun d ->
    match d.sd_parent with
    | Some _ -> ()
    | None ->
      let r = d.sd_name in
      let rn = string_of_name r in
      List.iter (fun (i, e) ->
        let ih = hex_of_bytes i in
        add (Printf.sprintf "E:%s:%s" rn ih);
        List.iter (fun (f, v) -> add (Printf.sprintf "F:%s:%s:%s:%s" rn ih (string_of_name f) (fval_str v))) e.e_f;
        List.iter (fun (f, l) -> List.iter (fun m -> add (Printf.sprintf "S:%s:%s:%s:%s" rn ih (string_of_name f) (hex_of_bytes m))) l) e.e_s;
        List.iter (fun (c, cd) ->
          add (Printf.sprintf "C:%s:%s:%s" rn ih (string_of_name c));
          List.iter (fun (f, v) -> add (Printf.sprintf "CF:%s:%s:%s:%s:%s" rn ih (string_of_name c) (string_of_name f) (fval_str v))) cd) e.e_c
      ) (st.ents r);
      (* indexes of the root store and of its child stores live under the root's entity type *)
      let owners = d :: children_of sch r in
      List.iter (fun o ->
        List.iter (fun k ->
          match k with
          | CUnique (f, _) ->
              List.iter (fun (v, i) -> add (Printf.sprintf "U:%s:%s:%s:%s" rn (string_of_name f) (hex_of_bytes v) (hex_of_bytes i))) (st.uidx r f)
          | CSetIdx f ->
              List.iter (fun (v, l) ->
                add (Printf.sprintf "XK:%s:%s:%s" rn (string_of_name f) (hex_of_bytes v));
                List.iter (fun i -> add (Printf.sprintf "X:%s:%s:%s:%s" rn (string_of_name f) (hex_of_bytes v) (hex_of_bytes i))) l) (st.sidx r f)
          | _ -> ()) o.sd_cons) owners
  ) sch;
  List.sort_uniq compare !out

(* ---- C15: paged / sorted / counted queries (tokens QP:..., same rule as c15Queries in
   harness/cmd/storageharness/c15_paging.go - keep them in step).  The answers come from the transcribed scan loops
   sorting_scan / unsorted_scan / cursor_scan of Store/Paging.v. *)
let c15_in_family (sch : sdef list) (d : sdef) : bool =
  match d.sd_parent with
  | Some _ -> true
  | None -> List.exists (fun c -> match c.sd_parent with Some p -> p = d.sd_name | None -> false) sch

let c15_paged_tokens (sch : sdef list) (st : state) (buf : Buffer.t) : unit =
  List.iter (fun d ->
    if c15_in_family sch d then begin
      let rootn = (match d.sd_parent with Some p -> p | None -> d.sd_name) in
      match find_store sch rootn with
      | None -> ()
      | Some rd ->
        if rd.sd_fields <> [] then begin
          let nm = string_of_name d.sd_name in
          let first = fst (List.hd rd.sd_fields) in
          let last = fst (List.nth rd.sd_fields (List.length rd.sd_fields - 1)) in
          let own = (match d.sd_parent, d.sd_fields with Some _, (f, _) :: _ -> Some f | _ -> None) in
          let ids = ids_of st rootn in
          let n = List.length ids in
          (* the filter value: the last root field of the first root entity (id order) holding a string *)
          let fv = List.fold_left (fun acc i ->
            match acc with
            | Some _ -> acc
            | None -> (match get_field sch st rootn i last with FStr w -> Some w | _ -> None)) None ids in
          if n > 0 then begin
            let emit api flt srt asc skip limit =
              let flt_s = (match flt with QTrue -> "T" | QFieldEq (f, v) -> "E=" ^ string_of_name f ^ "=" ^ hex_of_bytes v) in
              let srt_s = (match srt with Some f -> string_of_name f | None -> "-") in
              let lim_s = (match limit with Some l -> string_of_int l | None -> "n") in
              let lim = (match limit with Some l -> Some (nat_of_int l) | None -> None) in
              let sk = nat_of_int skip in
              let (page, count) =
                (match api, srt with
                 | "i", _ -> (cursor_scan sch st d.sd_name flt sk lim, "-")
                 | _, Some f -> let (p, c) = sorting_scan sch st d.sd_name flt f asc sk lim in (p, string_of_int (int_of_nat c))
                 | _, None -> let (p, c) = unsorted_scan sch st d.sd_name flt sk lim in (p, string_of_int (int_of_nat c))) in
              Buffer.add_string buf (Printf.sprintf " QP:%s:%s:%s:%s:%s:%d:%s:%s:%s" nm api flt_s srt_s (if asc then "a" else "d")
                skip lim_s count (String.concat "," (List.map hex_of_bytes page))) in
            let filters = QTrue :: (match fv with Some v -> [QFieldEq (last, v)] | None -> []) in
            List.iter (fun flt ->
              let full = (flt = QTrue) in   (* the selective filter gets a shorter list *)
              let p1 = if full then [(0, None); (0, Some 1); (0, Some 2); (1, None); (1, Some 1)] @ (if n - 1 > 2 then [(0, Some (n - 1))] else [])
                       else [(0, None); (0, Some 1); (1, Some 1)] in
              let p2 = if full then [(0, None); (0, Some 1); (1, Some 2)] else [(0, Some 1)] in
              let p3 = if full then [(0, None); (0, Some 2); (1, Some 1)] else [(0, Some 2)] in
              let p4 = if full then [(0, Some 1); (1, Some 1); (1, None)] else [(1, Some 1)] in
              let p5 = if full then [(0, Some 1); (1, Some 2)] else [(1, Some 2)] in
              List.iter (fun (sk, lim) -> emit "q" flt (Some first) true sk lim) p1;
              List.iter (fun (sk, lim) -> emit "q" flt (Some last) false sk lim) p2;
              (match own with
               | Some f -> List.iter (fun (sk, lim) -> emit "q" flt (Some f) true sk lim) p3
               | None -> ());
              List.iter (fun (sk, lim) -> emit "q" flt None true sk lim) p4;
              List.iter (fun (sk, lim) -> emit "i" flt None true sk lim) p5) filters;
            emit "c" QTrue (Some first) true 0 (Some 1);
            emit "c" (match fv with Some v -> QFieldEq (last, v) | None -> QTrue) (Some last) false 1 (Some 1)
          end
        end
    end) sch

(* ---- C15: QueryWithCursorC through every store of a family over caller-supplied cursors (tokens QC:..., same rule as
   c15Providers / c15CursorReads in harness/cmd/storageharness/store_c15w7.go - keep them in step).  The answers are the
   transcribed scan loops over the candidate list (Store/PagingCursor.v unsorted_scan_over / sorting_scan_over). *)
let c15_sort_ids (l : n list list) : n list list =
  List.map snd (List.sort_uniq compare (List.map (fun i -> (hex_of_bytes i, i)) l))

let c15_cursor_tokens (sch : sdef list) (st : state) (buf : Buffer.t) : unit =
  List.iter (fun rd ->
    if rd.sd_parent = None && c15_in_family sch rd && rd.sd_fields <> [] then begin
      let rootn = rd.sd_name in
      let first = fst (List.hd rd.sd_fields) in
      let last = fst (List.nth rd.sd_fields (List.length rd.sd_fields - 1)) in
      let ids = ids_of st rootn in
      let fv = List.fold_left (fun acc i ->
        match acc with
        | Some _ -> acc
        | None -> (match get_field sch st rootn i last with FStr w -> Some w | _ -> None)) None ids in
      if ids <> [] then begin
        (* providers: (descriptor, short, candidates) *)
        let provs = ref [] in
        let addp d sh c = provs := !provs @ [(d, sh, c)] in
        let related peer set =
          match find_store sch peer with
          | Some pd when pd.sd_parent = None ->
              (match List.find_opt (fun j -> get_set sch st peer j set <> []) (ids_of st peer) with
               | Some j -> addp (Printf.sprintf "rl=%s=%s=%s" (string_of_name peer) (hex_of_bytes j) (string_of_name set)) false
                             (c15_sort_ids (get_set sch st peer j set))
               | None -> ())
          | _ -> () in
        List.iter (fun k ->
          match k with
          | CSetIdx sf ->
              let pick = List.fold_left (fun acc i ->
                match acc with
                | Some _ -> acc
                | None ->
                    (match c15_sort_ids (List.filter (fun v -> v <> []) (get_set sch st rootn i sf)) with
                     | [] -> None
                     | [v] -> Some (v, v)
                     | v :: w :: _ -> Some (v, w))) None ids in
              (match pick with
               | None -> ()
               | Some (v, w) ->
                   let sfs = string_of_name sf in
                   addp (Printf.sprintf "si=%s=%s" sfs (hex_of_bytes v)) false (cands_set_all sch st rootn sf [v]);
                   addp (Printf.sprintf "sa=%s=%s.%s" sfs (hex_of_bytes v) (hex_of_bytes w)) true (cands_set_all sch st rootn sf [v; w]);
                   addp (Printf.sprintf "so=%s=%s.%s" sfs (hex_of_bytes v) (hex_of_bytes w)) true (cands_set_any sch st rootn sf [v; w]))
          | CFkIndex (_, t, b, _) -> related t b
          | _ -> ()) rd.sd_cons;
        List.iter (fun ((_, os), of_) -> related os of_) rd.sd_links;
        addp "ts=e" false (List.filteri (fun k _ -> k mod 2 = 0) ids);
        addp "ts=a" true ids;
        List.iter (fun d ->
          if d.sd_name = rootn || d.sd_parent = Some rootn then begin
            let nm = string_of_name d.sd_name in
            List.iter (fun (desc, short, cands) ->
              let emit flt srt skip limit =
                let flt_s = (match flt with QTrue -> "T" | QFieldEq (f, v) -> "E=" ^ string_of_name f ^ "=" ^ hex_of_bytes v) in
                let srt_s = (match srt with Some f -> string_of_name f | None -> "-") in
                let lim_s = (match limit with Some l -> string_of_int l | None -> "n") in
                let lim = (match limit with Some l -> Some (nat_of_int l) | None -> None) in
                let sk = nat_of_int skip in
                let (page, count) =
                  (match srt with
                   | Some f -> sorting_scan_over sch st d.sd_name flt f true sk lim cands
                   | None -> unsorted_scan_over sch st d.sd_name flt sk lim cands) in
                Buffer.add_string buf (Printf.sprintf " QC:%s:%s:%s:%s:a:%d:%s:%d:%s:%s" nm desc flt_s srt_s skip lim_s
                  (int_of_nat count) (String.concat "," (List.map hex_of_bytes page)) (String.concat "," (List.map hex_of_bytes cands))) in
              emit QTrue None 0 None;
              if not short then begin
                emit QTrue None 1 (Some 1);
                (match fv with Some v -> emit (QFieldEq (last, v)) None 0 None | None -> ());
                emit QTrue (Some first) 0 (Some 1)
              end) !provs
          end) sch
      end
    end) sch

(* ---- C15: every lookup variant of the store API (tokens LK / RE, harness store_c15w6.go c15LookupReads - keep them in
   step).  The answers are the transcribed variants of Store/Lookups.v; probe ids = the generator's id universe a..f and
   every id the root store holds, each once, in byte order. *)
let c15_probe_universe = List.map name_of_string ["a"; "b"; "c"; "d"; "e"; "f"]

let c15_lookup_tokens (sch : sdef list) (st : state) (buf : Buffer.t) : unit =
  List.iter (fun d ->
    if c15_in_family sch d then begin
    let nm = string_of_name d.sd_name in
    let rootn = (match d.sd_parent with Some p -> p | None -> d.sd_name) in
    let probes = List.map name_of_string
      (List.sort_uniq compare (List.map string_of_name (c15_probe_universe @ ids_of st rootn))) in
    let hexl l = String.concat "." (List.sort compare (List.map hex_of_bytes l)) in
    (match find_store sch rootn with
     | None -> ()
     | Some rd ->
       List.iter (fun i ->
         List.iter (fun sf ->
           let l = lk_related sch st d.sd_name i sf in
           (* IsEntityRelated, asked for every member and for a value that is none *)
           let r = List.filter (fun x -> lk_is_related sch st d.sd_name i sf x) (name_of_string "zz" :: l) in
           if l <> [] || r <> [] then
             Buffer.add_string buf (Printf.sprintf " RE:%s:%s:%s:%s:%s:%s" nm (hex_of_bytes i) (string_of_name sf) (hexl l) (hexl l) (hexl r)))
           rd.sd_sets) probes);
    List.iter (fun (tag, lk) ->
      Buffer.add_string buf (Printf.sprintf " LK:%s:%s:%s" nm tag
        (String.concat "," (List.map hex_of_bytes (List.filter (fun i -> lk sch st d.sd_name i) probes)))))
      [("fb", lk_find_by_id); ("lb", lk_load_by_id); ("le", lk_load_entity); ("ep", lk_is_entity_present);
       ("eb", lk_bucket); ("vi", lk_valid_id)]
    end) sch

let () =
  let fuel = nat_of_int 64 in
  iter_lines (fun line ->
    toks := Array.of_list (split_ws line);
    pos := 0;
    if Array.length !toks = 0 then print_endline "" else begin
      (match peek () with Some "WIRING" -> ignore (next ()); ignore (next ()) | _ -> ());
      (match next () with "SCH" -> () | t -> failwith ("expected SCH got " ^ t));
      let ns = next_int () in
      let sch = repeat ns parse_store in
      let st = ref st_empty in
      let trace = ref [st_empty] in   (* the states after 0, 1, 2, ... steps (Store/SystemRestore.v) *)
      let buf = Buffer.create 4096 in
      while peek () <> None do
        let ((((rs, committed), st'), evs), trace') = (match parse_tx () with
          | `Plain t -> hist_step sch fuel st_empty !trace (hstep_of t)
          | `Derived t ->
              (* one more step of the history: Db.Update from the current state *)
              let (((rs, committed), st'), evs) = run_xtx sch fuel !st t in
              ((((rs, committed), st'), evs), !trace @ [st'])) in
        st := st';
        trace := trace';
        Buffer.add_string buf "TX R";
        List.iter (fun r -> Buffer.add_char buf ' '; Buffer.add_string buf (kind_str r)) rs;
        Buffer.add_string buf (if committed then " COMMIT" else " ROLLBACK");
        let evl = List.sort compare (List.map (fun e ->
          Printf.sprintf "EV:%s:%s:%s:%s" (string_of_name e.ev_store) (change_str e.ev_change) (hex_of_bytes e.ev_id) (bool_str e.ev_parent)) evs) in
        List.iter (fun e -> Buffer.add_char buf ' '; Buffer.add_string buf e) evl;
        List.iter (fun d ->
          let nm = string_of_name d.sd_name in
          let pr tag l = Buffer.add_string buf (Printf.sprintf " %s:%s:%s" tag nm (String.concat "," (List.map hex_of_bytes l))) in
          pr "Q" (query_ids sch !st d.sd_name);
          pr "V" (valid_ids sch !st d.sd_name);
          pr "L" (find_ids sch !st d.sd_name)) sch;
        List.iter (fun d ->
          let nm = string_of_name d.sd_name in
          let pr tag l = Buffer.add_string buf (Printf.sprintf " %s:%s:%s" tag nm (String.concat "," (List.map hex_of_bytes l))) in
          pr "I" (query_ids sch !st d.sd_name);
          pr "QS" (query_ids sch !st d.sd_name);
          let pfields = (match d.sd_parent with
            | Some p -> (match find_store sch p with Some pd -> pd.sd_fields | None -> [])
            | None -> []) in
          let fields = pfields @ d.sd_fields in
          List.iter (fun i ->
            List.iter (fun (f, _) ->
              let v = (match get_field sch !st d.sd_name i f with FStr s -> "s" ^ hex_of_bytes s | _ -> "nil") in
              Buffer.add_string buf (Printf.sprintf " LF:%s:%s:%s:%s" nm (hex_of_bytes i) (string_of_name f) v)) fields;
            let sysv = (match get_field sch !st d.sd_name i isSystemF with FBool true -> "b1" | _ -> "b0") in
            Buffer.add_string buf (Printf.sprintf " LF:%s:%s:isSystem:%s" nm (hex_of_bytes i) sysv))
            (find_ids sch !st d.sd_name)) sch;
        c15_paged_tokens sch !st buf;
        c15_cursor_tokens sch !st buf;
        c15_lookup_tokens sch !st buf;
        Buffer.add_string buf " ST";
        List.iter (fun f -> Buffer.add_char buf ' '; Buffer.add_string buf f) (facts sch !st);
        Buffer.add_string buf " | "
      done;
      print_endline (Buffer.contents buf)
    end)
