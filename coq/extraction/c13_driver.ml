(* C13 driver.  One case per input line, one observation line per case; the Go harness
   (harness/cmd/storageharness/c13.go) prints the same observation format for the real code.

   V <hex16>            put_uvarint                     -> V <hex>
   U <hex>              uvarint                         -> U ok <hex16> <n> | U short | U over <n>
   K <n> <hex>{n}       encode_string_slice, then decode -> K err | K ok <hex> (ok <n> <hex>{n} | err | panic)
   D <hex>              decode_string_slice             -> D ok <n> <hex>{n} | D err | D panic
   N <hex>              decode_next                     -> N ok <next> <rest> | N err | N panic
   T <hex>              GetTypeAndValue + FieldTo*      -> T <ft> <payload> str= bool= i32= i64= f64= time=
   S <dump> <nphases> phase{n} R <n> <name>{n}          -> see run_scenario
   X <chain> <id> <dump> <nphases> phase{n} R ...       -> see run_persist_scenario
*)

let toks : string array ref = ref [||]
let pos = ref 0
let next () = let t = !toks.(!pos) in incr pos; t
let next_int () = int_of_string (next ())
let next_bytes () = bytes_of_hex (next ())

let rec n_times k f = if k <= 0 then [] else let x = f () in x :: n_times (k - 1) f

(* ---- parsing ---- *)
let parse_time () =
  let sec = z_of_dec (next ()) in
  let nsec = n_of_int (next_int ()) in
  let _zone = next () in
  (sec, nsec)

let rec parse_value () : value =
  match next () with
  | "n" -> VS SNil
  | "s" -> VS (SString (next_bytes ()))
  | "i" -> VS (SInt32 (z_of_dec (next ())))
  | "l" | "I" -> VS (SInt64 (z_of_dec (next ())))
  | "f" | "g" -> VS (SFloat64 (n_of_hex64 (next ())))
  | "b" -> VS (SBool (next () = "1"))
  | "t" -> let (s, ns) = parse_time () in VS (STime (s, ns))
  | "x" -> ignore (next ()); VBad
  | "M" -> VMap []
  | "A" -> VList []
  | "m" -> let k = next_int () in VMap (n_times k (fun () -> let key = next_bytes () in let v = parse_value () in (key, v)))
  | "a" -> let k = next_int () in VList (n_times k parse_value)
  | t -> failwith ("bad value token " ^ t)

let rec parse_dump () : bucket =
  match next () with
  | "D" ->
      let k = next_int () in
      n_times k (fun () ->
        let key = next_bytes () in
        if !toks.(!pos) = "L" then begin ignore (next ()); let v = next_bytes () in (key, Leaf v) end
        else (key, Sub (parse_dump ())))
  | t -> failwith ("bad dump token " ^ t)

(* the names of a phase's checker when it is a plain MapFieldChecker (its ToSlice is observed).
   A checker is given as a representation (Codec/CheckerRepr.v):
     *                          the nil interface
     c <n> <name>{n}            an allocated boltz.MapFieldChecker
     r <repr> <n> <name>{n}     the same selection handed over as another Go value: mn nil MapFieldChecker,
                                ma allocated MapFieldChecker, pn / sn / f0 typed nil pointer / slice / func of a
                                harness type answering false, anything else a non-nil value of a harness type
     o <n> (<from> <to>){n} c   WithFieldOverrides / NewMappedFieldChecker over c
     on c                       the same with a nil mappings map *)
let checker_names : str list option ref = ref None
let rec parse_repr () : checker_repr =
  match next () with
  | "*" -> RNilInterface
  | "c" -> let k = next_int () in let names = n_times k next_bytes in checker_names := Some names; RMap names
  | "r" ->
      let repr = next () in
      let k = next_int () in
      let names = n_times k next_bytes in
      (match repr with
       | "mn" -> if names <> [] then failwith "a nil map holds no names"; checker_names := Some []; RNilMap
       | "ma" -> checker_names := Some names; RMap names
       | "pn" | "sn" | "f0" ->
           if names <> [] then failwith "a nil value holds no names";
           checker_names := None; RCustom (true, map_field_checker [])
       | _ -> checker_names := None; RCustom (false, map_field_checker names))
  | "o" ->
      let k = next_int () in
      let mappings = n_times k (fun () -> let a = next_bytes () in let b = next_bytes () in (a, b)) in
      let inner = parse_repr () in
      checker_names := None;
      RMapped (inner, Some mappings)
  | "on" ->
      let inner = parse_repr () in
      checker_names := None;
      RMapped (inner, None)
  | t -> failwith ("bad checker token " ^ t)
let parse_checker () : checker =
  checker_names := None;
  let r = parse_repr () in
  let c = repr_checker r in
  (* the direct reading of the Go values and the checker agree (theorem checker_repr_selection) *)
  (match !checker_names with
   | Some names -> List.iter (fun n -> if proceed c n <> repr_selects r n then failwith "repr_selects differs") names
   | None -> ());
  c
let toslice_tok () : string list =
  match !checker_names with
  | Some names -> let l = names_set names [] in ["ts:" ^ String.concat ":" (string_of_int (List.length l) :: List.map hex_of_bytes l)]
  | None -> []

(* an op as the model sees it, plus what it returns to the caller *)
type opkind = Plain | Gss of str | Gsl

let parse_op () : fop * opkind =
  let kind = next () in
  let name = next_bytes () in
  match kind with
  | "nil" -> (OpNil name, Plain)
  | "str" -> (OpScalar (name, SString (next_bytes ())), Plain)
  | "strp" -> (match next () with
               | "n" -> (OpScalar (name, SNil), Plain)
               | _ -> (OpScalar (name, SString (next_bytes ())), Plain))
  | "bool" -> (OpScalar (name, SBool (next () = "1")), Plain)
  | "i32" -> (OpScalar (name, SInt32 (z_of_dec (next ()))), Plain)
  | "i64" -> (OpScalar (name, SInt64 (z_of_dec (next ()))), Plain)
  | "f64" -> (OpScalar (name, SFloat64 (n_of_hex64 (next ()))), Plain)
  | "time" -> let (s, ns) = parse_time () in (OpScalar (name, STime (s, ns)), Plain)
  | "timep" -> (match next () with
                | "n" -> (OpScalar (name, SNil), Plain)
                | _ -> let (s, ns) = parse_time () in (OpScalar (name, STime (s, ns)), Plain))
  | "gss" -> let v = next_bytes () in (OpScalar (name, SString v), Gss v)
  | "req" -> (OpReqString (name, next_bytes ()), Plain)
  | "slist" -> let k = next_int () in (OpStringList (name, n_times k next_bytes), Plain)
  | "gsl" -> let k = next_int () in (OpStringList (name, n_times k next_bytes), Gsl)
  | "map" ->
      let an = next () = "1" in
      let k = next_int () in
      let m = n_times k (fun () -> let key = next_bytes () in let v = parse_value () in (key, v)) in
      (OpMap (name, m, an), Plain)
  | "list" -> let k = next_int () in (OpList (name, n_times k parse_value), Plain)
  | t -> failwith ("bad op " ^ t)

(* ---- printing ---- *)
let buf = Buffer.create 65536
let out s = Buffer.add_char buf ' '; Buffer.add_string buf s

let rec out_value (v : value) =
  match v with
  | VS SNil -> out "n"
  | VS (SString s) -> out "s"; out (hex_of_bytes s)
  | VS (SInt32 z) -> out "i"; out (dec_of_z z)
  | VS (SInt64 z) -> out "l"; out (dec_of_z z)
  | VS (SFloat64 b) -> out "f"; out (hex64_of_n b)
  | VS (SBool b) -> out "b"; out (bool_str b)
  | VS (STime (s, ns)) -> out "t"; out (dec_of_z s); out (string_of_int (int_of_n ns))
  | VBad -> out "x"
  | VMap m -> out "m"; out (string_of_int (List.length m)); List.iter (fun (k, x) -> out (hex_of_bytes k); out_value x) m
  | VList l -> out "a"; out (string_of_int (List.length l)); List.iter out_value l

let rec out_dump (b : bucket) =
  out "D"; out (string_of_int (List.length b));
  List.iter (fun (k, nd) ->
    out (hex_of_bytes k);
    match nd with
    | Leaf v -> out "L"; out (hex_of_bytes v)
    | Sub c -> out_dump c) b

let str_tok (r : sres) = match r with
  | SVal None -> "n" | SVal (Some s) -> "s:" ^ hex_of_bytes s | SPanic -> "p" | SUnmodelled -> "u"
let bool_tok = function None -> "n" | Some b -> bool_str b
let int_tok = function None -> "n" | Some z -> dec_of_z z
let float_tok = function FVal None -> "n" | FVal (Some b) -> hex64_of_n b | FUnmodelled -> "u"
let time_tok = function None -> "n" | Some (s, ns) -> dec_of_z s ^ ":" ^ string_of_int (int_of_n ns)
let slist_tok (l : str list) = String.concat ":" (string_of_int (List.length l) :: List.map hex_of_bytes l)

let out_strs (l : str list) = out (string_of_int (List.length l)); List.iter (fun s -> out (hex_of_bytes s)) l


let dflt_string : str = bytes_of_hex "64666c74"
let dflt_time : z * n = (z_of_dec "63000000000", n_of_int 7)

(* every getter on one field of bucket st; [label] are the tokens naming the field in the output *)
let out_field_reads (label : string list) (name : str) (st : bucket) =
  out "| F"; List.iter out label;
  out ("str=" ^ str_tok (get_string name st));
  out ("bool=" ^ bool_tok (get_bool name st));
  out ("i32=" ^ int_tok (get_int32 name st));
  out ("i64=" ^ int_tok (get_int64 name st));
  out ("f64=" ^ float_tok (get_float64 name st));
  out ("time=" ^ time_tok (get_time name st));
  out ("sl=" ^ slist_tok (get_string_list name st));
  out "| L"; List.iter out label;
  (match get_list name st with
   | Ok None -> out "n"
   | Ok (Some l) -> out_value (VList l)
   | _ -> out "p");
  out "| M"; List.iter out label;
  out_value (VMap (get_map name st));
  out "| G"; List.iter out label;
  out ("swd=" ^ str_tok (get_string_with_default name dflt_string st));
  (let (r, e) = get_string_or_error name st in
   out ("soe=" ^ str_tok r);
   out ("soee=" ^ (match r with SPanic -> "p" | SUnmodelled -> "u" | _ -> bool_str e)));
  out ("bd=" ^ bool_str (get_bool_with_default name true st) ^ bool_str (get_bool_with_default name false st));
  out ("i32d=" ^ dec_of_z (get_int32_with_default name (z_of_int (-4242)) st));
  out ("i64d=" ^ dec_of_z (get_int64_with_default name (z_of_int 424242) st));
  (let (t, e) = get_time_or_error name st in
   out ("toe=" ^ time_tok (Some t)); out ("toee=" ^ bool_str e));
  out ("tod=" ^ time_tok (Some (get_time_or_default name dflt_time st)));
  out ("sle=" ^ bool_str (is_string_list_empty name st));
  out ("par=" ^ (match a_lookup name st with Some (Sub _) -> "1" | _ -> "n"))

(* ForEachTypedBucket on the entity bucket and three copies of it: whole, without the keys named
   [xname] at any depth, and the whole copied over the partial copy *)
let out_entity_sections (st : bucket) (xname : str option) =
  let cb = child_buckets st in
  out "| B"; out (string_of_int (List.length cb));
  List.iter (fun (k, c) -> out (hex_of_bytes k ^ ":" ^ string_of_int (List.length c))) cb;
  let digest filter =
    let ps = copy_paths filter [] (Sub st) in
    out (string_of_int (List.length ps));
    out (string_of_int (List.fold_left (fun a p -> a + List.length p) 0 ps)) in
  let out_res r = match r with
    | Ok c -> out "ok"; out_dump c
    | Err -> out "err"
    | _ -> out "panic" in
  let all _ = true in
  out "| C"; digest all; out_res (copy_bucket all st []);
  match xname with
  | None -> ()
  | Some x ->
      let f p = match List.rev p with k :: _ -> not (k = x) | [] -> true in
      out "| E"; out (hex_of_bytes x); digest f;
      let part = copy_bucket f st [] in
      out_res part;
      out "| O";
      (match part with
       | Ok c -> out_res (copy_bucket all st c)
       | _ -> out "skip")

(* S: the entity bucket starts as <dump>; every phase runs its setter calls with its checker
   in one transaction (rolled back when the bucket reports an error), the bucket is dumped
   after each phase, then every name in R is read with every getter. *)
let run_scenario () =
  let b = ref (parse_dump ()) in
  let nph = next_int () in
  out "| I"; out_dump !b;
  let dead = ref false in
  for _ = 1 to nph do
    (match next () with "P" -> () | t -> failwith ("expected P, got " ^ t));
    let _api = next () in
    let chk = parse_checker () in
    let nops = next_int () in
    let ops = n_times nops parse_op in
    (* run the ops one at a time so the return values of GetAndSet* are taken from the state
       they see *)
    let cur = ref (Ok !b) in
    let outs = ref [] in
    let panicked = ref false in
    List.iter (fun (op, kind) ->
      match !cur with
      | Ok st when not !panicked ->
          (match kind with
           | Plain -> ()
           | Gss v ->
               (match get_and_set_string_out chk (op_name op) v st with
                | GasVal (None, ch) -> outs := ("gss:n:" ^ bool_str ch) :: !outs
                | GasVal (Some o, ch) -> outs := ("gss:s:" ^ hex_of_bytes o ^ ":" ^ bool_str ch) :: !outs
                | GasPanic -> panicked := true
                | GasUnmodelled -> outs := "gss:u" :: !outs)
           | Gsl ->
               let (l, pr) = get_and_set_string_list_out chk (op_name op) st in
               outs := ("gsl:" ^ slist_tok l ^ ":" ^ bool_str pr) :: !outs);
          if not !panicked then cur := apply_op chk op st
      | _ -> ()) ops;
    out "| P";
    if !panicked then out "panic"
    else (match !cur with
      | Ok st -> b := st; out "ok"; List.iter out (List.rev !outs); List.iter out (toslice_tok ()); out_dump st
      | Err -> out "err"
      | Panic -> out "panic"
      | OutOfFuel -> out "fuel")
  done;
  ignore !dead;
  (match next () with "R" -> () | t -> failwith ("expected R, got " ^ t));
  let nn = next_int () in
  let names = n_times nn next_bytes in
  List.iter (fun name -> out_field_reads [hex_of_bytes name] name !b) names;
  out "| A"; out_value (VMap (entries_of !b));
  out_entity_sections !b (match names with x :: _ -> Some x | [] -> None)


(* X <nlevels> (<plen> <key>{plen}){nlevels} <id> <dump> <nphases> phase{n} R <n> (<level> <name>){n}
   phase := P <create> <checker> <nstmts> stmt{n}
   stmt  := s <slot> <op> | g <slot> | w <slot> <n> (<from> <to>){n} | wn <slot>
   One persist per phase through the store at level 0 of the chain (Codec/Persist.v); <dump> is the
   root store's entity bucket.  Ops as in S, plus the PersistContext-only calls
   links <name> <n> <id>{n} | isc <name> <on-create> <on-update> | id <name> | tx <name>. *)
let parse_pop () : pop * opkind =
  match !toks.(!pos) with
  | "links" -> ignore (next ()); let name = next_bytes () in let k = next_int () in (PLinked (name, n_times k next_bytes), Plain)
  | "isc" ->
      ignore (next ()); let name = next_bytes () in
      let vc = next_bytes () in let vu = next_bytes () in
      (PByCreate (name, SString vc, SString vu), Plain)
  | "id" -> ignore (next ()); (PId (next_bytes ()), Plain)
  | "tx" -> ignore (next ()); (PTx (next_bytes ()), Plain)
  | _ -> let (op, kind) = parse_op () in (PBase op, kind)

let parse_stmt () : pstmt * opkind =
  match next () with
  | "s" -> let slot = nat_of_int (next_int ()) in let (o, kind) = parse_pop () in (PSet (slot, o), kind)
  | "g" -> (PParent (nat_of_int (next_int ())), Plain)
  | "w" ->
      let slot = nat_of_int (next_int ()) in
      let k = next_int () in
      let m = n_times k (fun () -> let a = next_bytes () in let b = next_bytes () in (a, b)) in
      (POverride (slot, m), Plain)
  | "wn" -> (POverride (nat_of_int (next_int ()), []), Plain)    (* WithFieldOverrides(nil) *)
  | t -> failwith ("bad statement " ^ t)

let run_persist_scenario () =
  let nl = next_int () in
  let ch = n_times nl (fun () -> let k = next_int () in n_times k next_bytes) in
  let id = next_bytes () in
  let b = ref (parse_dump ()) in
  let nph = next_int () in
  out "| I"; out_dump !b;
  for _ = 1 to nph do
    (match next () with "P" -> () | t -> failwith ("expected P, got " ^ t));
    let create = next () = "1" in
    let chk = parse_checker () in
    let n = next_int () in
    let stmts = n_times n parse_stmt in
    let whole = persist ch chk create id (List.map fst stmts) !b in
    (* statement by statement, for what GetAndSetString / GetAndSetStringList return *)
    let outs = ref [] in
    let panicked = ref false in
    let stepwise = ref None in
    (match (if create then ensure_path (level_path ch O) !b else Ok !b) with
     | Ok b0 ->
         (match get_path (level_path ch O) b0 with
          | Some _ ->
              let cur = ref (Ok (init_slots { pc_level = O; pc_checker = chk; pc_create = create; pc_id = id }, b0)) in
              List.iter (fun (st, kind) ->
                match !cur with
                | Ok (cs, stb) when not !panicked ->
                    (match st, kind with
                     | PSet (slot, o), (Gss _ | Gsl) ->
                         (match cs slot with
                          | Some c ->
                              let w = ctx_write ch c o in
                              (match get_path w.w_path stb with
                               | Some lb ->
                                   (match kind with
                                    | Gss v ->
                                        (match get_and_set_string_out w.w_checker (op_name w.w_op) v lb with
                                         | GasVal (None, chg) -> outs := ("gss:n:" ^ bool_str chg) :: !outs
                                         | GasVal (Some o, chg) -> outs := ("gss:s:" ^ hex_of_bytes o ^ ":" ^ bool_str chg) :: !outs
                                         | GasPanic -> panicked := true
                                         | GasUnmodelled -> outs := "gss:u" :: !outs)
                                    | Gsl ->
                                        let (l, pr) = get_and_set_string_list_out w.w_checker (op_name w.w_op) lb in
                                        outs := ("gsl:" ^ slist_tok l ^ ":" ^ bool_str pr) :: !outs
                                    | Plain -> ())
                               | None -> ())
                          | None -> ())
                     | _ -> ());
                    if not !panicked then cur := step ch st cs stb
                | _ -> ()) stmts;
              (match !cur with Ok (_, stb) -> stepwise := Some stb | _ -> ())
          | None -> ())
     | _ -> ());
    out "| P";
    if !panicked then out "panic"
    else (match whole with
      | Ok st ->
          (match !stepwise with
           | Some st' when st' = st -> ()
           | _ -> failwith "persist and the statement-wise run differ");
          b := st; out "ok"; List.iter out (List.rev !outs); List.iter out (toslice_tok ()); out_dump st
      | Err -> out "err"
      | Panic -> out "panic"
      | OutOfFuel -> out "fuel")
  done;
  (match next () with "R" -> () | t -> failwith ("expected R, got " ^ t));
  let nn = next_int () in
  let reads = n_times nn (fun () -> let l = next_int () in let name = next_bytes () in (l, name)) in
  List.iter (fun (l, name) ->
    let label = [string_of_int l; hex_of_bytes name] in
    match get_path (level_path ch (nat_of_int l)) !b with
    | Some lb -> out_field_reads label name lb
    | None -> out "| F"; List.iter out label; out "nobucket") reads;
  out "| A"; out_value (VMap (entries_of !b));
  out_entity_sections !b (match reads with (_, x) :: _ -> Some x | [] -> None)

let () =
  iter_lines (fun line ->
    let l = split_ws line in
    if l <> [] then begin
      toks := Array.of_list l; pos := 0;
      Buffer.clear buf;
      let kind = next () in
      Buffer.add_string buf kind;
      (try
        (match kind with
         | "V" -> out (hex_of_bytes (put_uvarint (n_of_hex64 (next ()))))
         | "U" ->
             (match uvarint (next_bytes ()) with
              | UvOk (x, k) -> out "ok"; out (hex64_of_n x); out (string_of_int (int_of_nat k))
              | UvShort -> out "short"
              | UvOverflow k -> out "over"; out (string_of_int (int_of_nat k)))
         | "K" ->
             let k = next_int () in
             let l = n_times k next_bytes in
             (match encode_string_slice l with
              | Ok e ->
                  out "ok"; out (hex_of_bytes e);
                  (match decode_string_slice e with
                   | Ok l' -> out "ok"; out_strs l'
                   | Err -> out "err"
                   | _ -> out "panic")
              | _ -> out "err")
         | "D" ->
             (match decode_string_slice (next_bytes ()) with
              | Ok l -> out "ok"; out_strs l
              | Err -> out "err"
              | Panic -> out "panic"
              | OutOfFuel -> out "fuel")
         | "N" ->
             (match decode_next (next_bytes ()) with
              | Ok (a, b) -> out "ok"; out (hex_of_bytes a); out (hex_of_bytes b)
              | Err -> out "err"
              | Panic -> out "panic"
              | OutOfFuel -> out "fuel")
         | "T" ->
             let bytes = next_bytes () in
             let (ft, v) = get_type_and_value bytes in
             out (string_of_int (int_of_n ft)); out (hex_of_bytes v);
             out ("str=" ^ str_tok (read_string bytes));
             out ("bool=" ^ bool_tok (read_bool bytes));
             out ("i32=" ^ int_tok (read_int32 bytes));
             out ("i64=" ^ int_tok (read_int64 bytes));
             out ("f64=" ^ float_tok (read_float64 bytes));
             out ("time=" ^ time_tok (read_time bytes))
         | "S" -> run_scenario ()
         | "X" -> run_persist_scenario ()
         | _ -> out "?")
      with e -> out ("driver-error:" ^ String.map (fun c -> if c = ' ' then '_' else c) (Printexc.to_string e)));
      print_endline (Buffer.contents buf)
    end)
