(* C13 driver.  One case per input line, one observation line per case; the Go harness
   (harness/cmd/storageharness/c13.go) prints the same observation format for the real code.

   V <hex16>            put_uvarint                     -> V <hex>
   U <hex>              uvarint                         -> U ok <hex16> <n> | U short | U over <n>
   K <n> <hex>{n}       encode_string_slice, then decode -> K err | K ok <hex> (ok <n> <hex>{n} | err | panic)
   D <hex>              decode_string_slice             -> D ok <n> <hex>{n} | D err | D panic
   N <hex>              decode_next                     -> N ok <next> <rest> | N err | N panic
   T <hex>              GetTypeAndValue + FieldTo*      -> T <ft> <payload> str= bool= i32= i64= f64= time=
   S <dump> <nphases> phase{n} R <n> <name>{n}          -> see run_scenario
*)

let toks : string array ref = ref [||]
let pos = ref 0
let next () = let t = !toks.(!pos) in incr pos; t
let next_int () = int_of_string (next ())
let next_bytes () = bytes_of_hex (next ())

let rec n_times k f = if k <= 0 then [] else let x = f () in x :: n_times (k - 1) f

(* ---- parsing ---- *)
let parse_time () =
  let sec = z_of_dec (next ()) in
  let nsec = n_of_int (next_int ()) in
  let _zone = next () in
  (sec, nsec)

let rec parse_value () : value =
  match next () with
  | "n" -> VS SNil
  | "s" -> VS (SString (next_bytes ()))
  | "i" -> VS (SInt32 (z_of_dec (next ())))
  | "l" | "I" -> VS (SInt64 (z_of_dec (next ())))
  | "f" | "g" -> VS (SFloat64 (n_of_hex64 (next ())))
  | "b" -> VS (SBool (next () = "1"))
  | "t" -> let (s, ns) = parse_time () in VS (STime (s, ns))
  | "x" -> ignore (next ()); VBad
  | "M" -> VMap []
  | "A" -> VList []
  | "m" -> let k = next_int () in VMap (n_times k (fun () -> let key = next_bytes () in let v = parse_value () in (key, v)))
  | "a" -> let k = next_int () in VList (n_times k parse_value)
  | t -> failwith ("bad value token " ^ t)

let rec parse_dump () : bucket =
  match next () with
  | "D" ->
      let k = next_int () in
      n_times k (fun () ->
        let key = next_bytes () in
        if !toks.(!pos) = "L" then begin ignore (next ()); let v = next_bytes () in (key, Leaf v) end
        else (key, Sub (parse_dump ())))
  | t -> failwith ("bad dump token " ^ t)

let rec parse_checker () : checker =
  match next () with
  | "*" -> None
  | "c" -> let k = next_int () in let names = n_times k next_bytes in Some (map_field_checker names)
  | "o" ->
      let k = next_int () in
      let mappings = n_times k (fun () -> let a = next_bytes () in let b = next_bytes () in (a, b)) in
      let inner = parse_checker () in
      with_field_overrides inner mappings
  | t -> failwith ("bad checker token " ^ t)

(* an op as the model sees it, plus what it returns to the caller *)
type opkind = Plain | Gss of str | Gsl

let parse_op () : fop * opkind =
  let kind = next () in
  let name = next_bytes () in
  match kind with
  | "nil" -> (OpNil name, Plain)
  | "str" -> (OpScalar (name, SString (next_bytes ())), Plain)
  | "strp" -> (match next () with
               | "n" -> (OpScalar (name, SNil), Plain)
               | _ -> (OpScalar (name, SString (next_bytes ())), Plain))
  | "bool" -> (OpScalar (name, SBool (next () = "1")), Plain)
  | "i32" -> (OpScalar (name, SInt32 (z_of_dec (next ()))), Plain)
  | "i64" -> (OpScalar (name, SInt64 (z_of_dec (next ()))), Plain)
  | "f64" -> (OpScalar (name, SFloat64 (n_of_hex64 (next ()))), Plain)
  | "time" -> let (s, ns) = parse_time () in (OpScalar (name, STime (s, ns)), Plain)
  | "timep" -> (match next () with
                | "n" -> (OpScalar (name, SNil), Plain)
                | _ -> let (s, ns) = parse_time () in (OpScalar (name, STime (s, ns)), Plain))
  | "gss" -> let v = next_bytes () in (OpScalar (name, SString v), Gss v)
  | "req" -> (OpReqString (name, next_bytes ()), Plain)
  | "slist" -> let k = next_int () in (OpStringList (name, n_times k next_bytes), Plain)
  | "gsl" -> let k = next_int () in (OpStringList (name, n_times k next_bytes), Gsl)
  | "map" ->
      let an = next () = "1" in
      let k = next_int () in
      let m = n_times k (fun () -> let key = next_bytes () in let v = parse_value () in (key, v)) in
      (OpMap (name, m, an), Plain)
  | "list" -> let k = next_int () in (OpList (name, n_times k parse_value), Plain)
  | t -> failwith ("bad op " ^ t)

(* ---- printing ---- *)
let buf = Buffer.create 65536
let out s = Buffer.add_char buf ' '; Buffer.add_string buf s

let rec out_value (v : value) =
  match v with
  | VS SNil -> out "n"
  | VS (SString s) -> out "s"; out (hex_of_bytes s)
  | VS (SInt32 z) -> out "i"; out (dec_of_z z)
  | VS (SInt64 z) -> out "l"; out (dec_of_z z)
  | VS (SFloat64 b) -> out "f"; out (hex64_of_n b)
  | VS (SBool b) -> out "b"; out (bool_str b)
  | VS (STime (s, ns)) -> out "t"; out (dec_of_z s); out (string_of_int (int_of_n ns))
  | VBad -> out "x"
  | VMap m -> out "m"; out (string_of_int (List.length m)); List.iter (fun (k, x) -> out (hex_of_bytes k); out_value x) m
  | VList l -> out "a"; out (string_of_int (List.length l)); List.iter out_value l

let rec out_dump (b : bucket) =
  out "D"; out (string_of_int (List.length b));
  List.iter (fun (k, nd) ->
    out (hex_of_bytes k);
    match nd with
    | Leaf v -> out "L"; out (hex_of_bytes v)
    | Sub c -> out_dump c) b

let str_tok (r : sres) = match r with
  | SVal None -> "n" | SVal (Some s) -> "s:" ^ hex_of_bytes s | SPanic -> "p" | SUnmodelled -> "u"
let bool_tok = function None -> "n" | Some b -> bool_str b
let int_tok = function None -> "n" | Some z -> dec_of_z z
let float_tok = function FVal None -> "n" | FVal (Some b) -> hex64_of_n b | FUnmodelled -> "u"
let time_tok = function None -> "n" | Some (s, ns) -> dec_of_z s ^ ":" ^ string_of_int (int_of_n ns)
let slist_tok (l : str list) = String.concat ":" (string_of_int (List.length l) :: List.map hex_of_bytes l)

let out_strs (l : str list) = out (string_of_int (List.length l)); List.iter (fun s -> out (hex_of_bytes s)) l

(* S: the entity bucket starts as <dump>; every phase runs its setter calls with its checker
   in one transaction (rolled back when the bucket reports an error), the bucket is dumped
   after each phase, then every name in R is read with every getter. *)
let run_scenario () =
  let b = ref (parse_dump ()) in
  let nph = next_int () in
  out "| I"; out_dump !b;
  let dead = ref false in
  for _ = 1 to nph do
    (match next () with "P" -> () | t -> failwith ("expected P, got " ^ t));
    let _api = next () in
    let chk = parse_checker () in
    let nops = next_int () in
    let ops = n_times nops parse_op in
    (* run the ops one at a time so the return values of GetAndSet* are taken from the state
       they see *)
    let cur = ref (Ok !b) in
    let outs = ref [] in
    let panicked = ref false in
    List.iter (fun (op, kind) ->
      match !cur with
      | Ok st when not !panicked ->
          (match kind with
           | Plain -> ()
           | Gss v ->
               (match get_and_set_string_out chk (op_name op) v st with
                | GasVal (None, ch) -> outs := ("gss:n:" ^ bool_str ch) :: !outs
                | GasVal (Some o, ch) -> outs := ("gss:s:" ^ hex_of_bytes o ^ ":" ^ bool_str ch) :: !outs
                | GasPanic -> panicked := true
                | GasUnmodelled -> outs := "gss:u" :: !outs)
           | Gsl ->
               let (l, pr) = get_and_set_string_list_out chk (op_name op) st in
               outs := ("gsl:" ^ slist_tok l ^ ":" ^ bool_str pr) :: !outs);
          if not !panicked then cur := apply_op chk op st
      | _ -> ()) ops;
    out "| P";
    if !panicked then out "panic"
    else (match !cur with
      | Ok st -> b := st; out "ok"; List.iter out (List.rev !outs); out_dump st
      | Err -> out "err"
      | Panic -> out "panic"
      | OutOfFuel -> out "fuel")
  done;
  ignore !dead;
  (match next () with "R" -> () | t -> failwith ("expected R, got " ^ t));
  let nn = next_int () in
  let names = n_times nn next_bytes in
  List.iter (fun name ->
    let st = !b in
    out "| F"; out (hex_of_bytes name);
    out ("str=" ^ str_tok (get_string name st));
    out ("bool=" ^ bool_tok (get_bool name st));
    out ("i32=" ^ int_tok (get_int32 name st));
    out ("i64=" ^ int_tok (get_int64 name st));
    out ("f64=" ^ float_tok (get_float64 name st));
    out ("time=" ^ time_tok (get_time name st));
    out ("sl=" ^ slist_tok (get_string_list name st));
    out "| L"; out (hex_of_bytes name);
    (match get_list name st with
     | Ok None -> out "n"
     | Ok (Some l) -> out_value (VList l)
     | _ -> out "p");
    out "| M"; out (hex_of_bytes name);
    out_value (VMap (get_map name st))) names;
  out "| A"; out_value (VMap (entries_of !b))

let () =
  iter_lines (fun line ->
    let l = split_ws line in
    if l <> [] then begin
      toks := Array.of_list l; pos := 0;
      Buffer.clear buf;
      let kind = next () in
      Buffer.add_string buf kind;
      (try
        (match kind with
         | "V" -> out (hex_of_bytes (put_uvarint (n_of_hex64 (next ()))))
         | "U" ->
             (match uvarint (next_bytes ()) with
              | UvOk (x, k) -> out "ok"; out (hex64_of_n x); out (string_of_int (int_of_nat k))
              | UvShort -> out "short"
              | UvOverflow k -> out "over"; out (string_of_int (int_of_nat k)))
         | "K" ->
             let k = next_int () in
             let l = n_times k next_bytes in
             (match encode_string_slice l with
              | Ok e ->
                  out "ok"; out (hex_of_bytes e);
                  (match decode_string_slice e with
                   | Ok l' -> out "ok"; out_strs l'
                   | Err -> out "err"
                   | _ -> out "panic")
              | _ -> out "err")
         | "D" ->
             (match decode_string_slice (next_bytes ()) with
              | Ok l -> out "ok"; out_strs l
              | Err -> out "err"
              | Panic -> out "panic"
              | OutOfFuel -> out "fuel")
         | "N" ->
             (match decode_next (next_bytes ()) with
              | Ok (a, b) -> out "ok"; out (hex_of_bytes a); out (hex_of_bytes b)
              | Err -> out "err"
              | Panic -> out "panic"
              | OutOfFuel -> out "fuel")
         | "T" ->
             let bytes = next_bytes () in
             let (ft, v) = get_type_and_value bytes in
             out (string_of_int (int_of_n ft)); out (hex_of_bytes v);
             out ("str=" ^ str_tok (read_string bytes));
             out ("bool=" ^ bool_tok (read_bool bytes));
             out ("i32=" ^ int_tok (read_int32 bytes));
             out ("i64=" ^ int_tok (read_int64 bytes));
             out ("f64=" ^ float_tok (read_float64 bytes));
             out ("time=" ^ time_tok (read_time bytes))
         | "S" -> run_scenario ()
         | _ -> out "?")
      with e -> out ("driver-error:" ^ String.map (fun c -> if c = ' ' then '_' else c) (Printexc.to_string e)));
      print_endline (Buffer.contents buf)
    end)
