From Coq Require Import Extraction ExtrOcamlBasic NArith ZArith.
From Storage Require Import Base.Bytes Db.Mvcc Db.Workload.
Extraction Language OCaml.
Definition force_types : nat * N * Z := (O, 0%N, 0%Z).
Definition workload_versions (ws : list wtx) : list wstate := serial_versions wstate wtx apply_wtx empty_state ws.
Extraction "c18_model.ml" force_types workload_versions apply_wtx eval_query eval_placed empty_state serial_answer.
