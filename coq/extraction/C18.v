From Coq Require Import Extraction ExtrOcamlBasic NArith ZArith List.
From Storage Require Import Base.Bytes Db.Mvcc Db.Workload Db.RwLock Db.LockTable.
Import ListNotations.
Extraction Language OCaml.
Definition force_types : nat * N * Z := (O, 0%N, 0%Z).
Definition workload_versions (ws : list wtx) : list wstate := serial_versions wstate wtx apply_wtx empty_state ws.
(* "D" cases: the reload-lock system of Db/RwLock.v run on the schedule the harness drives, every joined call
   being a row without acquisitions (what Properties/C18Locks.v establishes for the generated table) *)
Definition lock_scenario_plain (nsteps at_ : nat) (restore : bool) : option (nat * nat) :=
  lock_scenario_plan [TStep] nsteps at_ restore.
Extraction "c18_model.ml" force_types workload_versions apply_wtx eval_query eval_placed empty_state serial_answer lock_scenario_plain.
