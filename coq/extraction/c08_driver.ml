(* C08 driver: runs histories through the instrumented store machine (Store/Events.v run_tx_v) under the
   hook programs of the HOOKS section (Store/TxHooks.v db_update) and prints, per transaction, op results, commit flag, delivered events, what every listener
   registration style of harness/cmd/storageharness/store_c08.go receives (delivered_to), the
   commit-action / tx-complete counters and the canonical facts.  The parser and the fact printer
   are copies of store_driver.ml. *)
let name_of_string (s : string) : n list =
  List.init (String.length s) (fun i -> n_of_int (Char.code s.[i]))
let string_of_name (l : n list) : string =
  String.concat "" (List.map (fun b -> String.make 1 (Char.chr (int_of_n b))) l)

let toks = ref [||]
let pos = ref 0
let next () = let t = !toks.(!pos) in incr pos; t
let peek () = if !pos < Array.length !toks then Some !toks.(!pos) else None
let next_int () = int_of_string (next ())
let next_bool () = next () = "1"
let next_name () = name_of_string (next ())
let next_hex () = bytes_of_hex (next ())
let rec repeat k f = if k <= 0 then [] else let x = f () in x :: repeat (k - 1) f

let parse_cons () =
  match next () with
  | "U" -> let f = next_name () in let nl = next_bool () in CUnique (f, nl)
  | "SI" -> CSetIdx (next_name ())
  | "FI" -> let f = next_name () in let t = next_name () in let b = next_name () in let nl = next_bool () in CFkIndex (f, t, b, nl)
  | "FR" -> CFkRestrict (next_name ())
  | "FC" -> let f = next_name () in let t = next_name () in let nl = next_bool () in CFkCons (f, t, nl)
  | "CA" -> let r = next_name () in let f = next_name () in let c = (match next () with "D" -> CascDelete | _ -> CascNone) in CFkCascade (r, f, c)
  | "SY" -> CSystem
  | t -> failwith ("bad cons " ^ t)

let parse_store () =
  (match next () with "ST" -> () | t -> failwith ("expected ST got " ^ t));
  let nm = next_name () in
  let parent = (match next () with "-" -> None | p -> Some (name_of_string p)) in
  let ext = next_bool () in
  let nf = next_int () in
  let fields = repeat nf (fun () -> let f = next_name () in let p = next_bool () in (f, p)) in
  let ns = next_int () in
  let sets = repeat ns next_name in
  let nc = next_int () in
  let cons = repeat nc parse_cons in
  let nl = next_int () in
  let links = repeat nl (fun () -> let a = next_name () in let b = next_name () in let c = next_name () in ((a, b), c)) in
  { sd_name = nm; sd_parent = parent; sd_ext = ext; sd_fields = fields; sd_sets = sets; sd_cons = cons; sd_links = links }

let parse_fv () =
  let n = next_int () in
  repeat n (fun () -> let f = next_name () in let v = (match next () with "N" -> None | h -> Some (bytes_of_hex h)) in (f, v))
let parse_sv () =
  let n = next_int () in
  repeat n (fun () -> let f = next_name () in let k = next_int () in let l = repeat k next_hex in (f, l))
let parse_change () = match next () with "C" -> Created | "U" -> Updated | _ -> Deleted

let parse_op () =
  match next () with
  | "C" -> let s = next_name () in let i = next_hex () in let sys = next_bool () in let fv = parse_fv () in let sv = parse_sv () in OCreate (s, i, sys, fv, sv)
  | "UP" -> let s = next_name () in let i = next_hex () in let fv = parse_fv () in let sv = parse_sv () in
      let ch = (match next () with "-" -> None | k -> Some (repeat (int_of_string k) next_name)) in
      OUpdate (s, i, fv, sv, ch)
  | "D" -> let s = next_name () in let i = next_hex () in ODelete (s, i)
  | "AL" -> let s = next_name () in let i = next_hex () in let lf = next_name () in let k = next_int () in let ts = repeat k next_hex in OAddLinks (s, i, lf, ts)
  | "RL" -> let s = next_name () in let i = next_hex () in let lf = next_name () in let k = next_int () in let ts = repeat k next_hex in ORemoveLinks (s, i, lf, ts)
  | "FAIL" -> OFail
  | t -> failwith ("bad op " ^ t)

let parse_tx () =
  (match next () with "TX" -> () | t -> failwith ("expected TX got " ^ t));
  let sys = next_bool () in
  let pcf = next_bool () in
  let nv = next_int () in
  let vetoes = repeat nv (fun () -> let s = next_name () in let c = parse_change () in let i = next_hex () in ((s, c), i)) in
  let no = next_int () in
  let ops = repeat no parse_op in
  { tx_sys = sys; tx_vetoes = vetoes; tx_ops = ops; tx_precommit_fails = pcf }

let fval_str = function
  | FAbsent -> "absent" | FNil -> "nil" | FStr s -> "s" ^ hex_of_bytes s | FBool b -> if b then "b1" else "b0"

let kind_str = function
  | None -> "ok" | Some EDuplicate -> "dup" | Some ENotFound -> "notfound" | Some ERefExists -> "refexists"
  | Some EOther -> "err" | Some EOutOfFuel -> "FUEL"

let change_str = function Created -> "C" | Updated -> "U" | Deleted -> "D"

let facts (sch : sdef list) (st : state) : string list =
  let out = ref [] in
  let add s = out := s :: !out in
  List.iter (fun d ->
    match d.sd_parent with
    | Some _ -> ()
    | None ->
      let r = d.sd_name in
      let rn = string_of_name r in
      List.iter (fun (i, e) ->
        let ih = hex_of_bytes i in
        add (Printf.sprintf "E:%s:%s" rn ih);
        List.iter (fun (f, v) -> add (Printf.sprintf "F:%s:%s:%s:%s" rn ih (string_of_name f) (fval_str v))) e.e_f;
        List.iter (fun (f, l) -> List.iter (fun m -> add (Printf.sprintf "S:%s:%s:%s:%s" rn ih (string_of_name f) (hex_of_bytes m))) l) e.e_s;
        List.iter (fun (c, cd) ->
          add (Printf.sprintf "C:%s:%s:%s" rn ih (string_of_name c));
          List.iter (fun (f, v) -> add (Printf.sprintf "CF:%s:%s:%s:%s:%s" rn ih (string_of_name c) (string_of_name f) (fval_str v))) cd) e.e_c
      ) (st.ents r);
      (* indexes of the root store and of its child stores live under the root's entity type *)
      let owners = d :: children_of sch r in
      List.iter (fun o ->
        List.iter (fun k ->
          match k with
          | CUnique (f, _) ->
              List.iter (fun (v, i) -> add (Printf.sprintf "U:%s:%s:%s:%s" rn (string_of_name f) (hex_of_bytes v) (hex_of_bytes i))) (st.uidx r f)
          | CSetIdx f ->
              List.iter (fun (v, l) ->
                add (Printf.sprintf "XK:%s:%s:%s" rn (string_of_name f) (hex_of_bytes v));
                List.iter (fun i -> add (Printf.sprintf "X:%s:%s:%s:%s" rn (string_of_name f) (hex_of_bytes v) (hex_of_bytes i))) l) (st.sidx r f)
          | _ -> ()) o.sd_cons) owners
  ) sch;
  List.sort_uniq compare !out

(* ---- C08 ---- *)
let view_digest (v : view) : string =
  let fv = function FStr s -> hex_of_bytes s | FBool b -> if b then "b1" else "b0" | _ -> "N" in
  let fields = String.concat "," (List.map (fun (f, x) -> string_of_name f ^ "=" ^ fv x) v.v_fields) in
  let sets = String.concat "," (List.map (fun (f, l) ->
    string_of_name f ^ "=" ^ String.concat "+" (List.sort_uniq compare (List.map hex_of_bytes l))) v.v_sets) in
  Printf.sprintf "%s;%s;sys=%s" fields sets (bool_str v.v_sys)

(* the registrations of store_c08.go: per store, styles t f u i x {sync, async} x {C, U, D}, one
   typed and one untyped constraint *)
let filter_styles = [ (LTyped, "t"); (LFunction, "f"); (LUntyped, "u"); (LIdOnly, "i") ]
let types_of = function
  | Created -> [ (ECreated, "s"); (ECreatedAsync, "a") ]
  | Updated -> [ (EUpdated, "s"); (EUpdatedAsync, "a") ]
  | Deleted -> [ (EDeleted, "s"); (EDeletedAsync, "a") ]

let listener_tokens (sch : sdef list) (sevs : sevent list) : string list =
  let out = ref [] in
  let evs = List.map (fun se -> se.se_ev) sevs in
  (* delivered_to works on the plain event list; the views are looked up by position *)
  let indexed = List.mapi (fun k se -> (k, se)) sevs in
  ignore evs;
  List.iter (fun d ->
    let nm = string_of_name d.sd_name in
    let deliver (l : listener) (tag : string) (reg : string option) (with_state : bool) (with_parent : bool) =
      List.iter (fun (_, se) ->
        let got = delivered_to l [se.se_ev] in
        List.iter (fun ((e : event), _async) ->
          let ch = (match reg with Some r -> r | None -> change_str e.ev_change) in
          let dg = if with_state then view_digest se.se_view else "-" in
          let tok = Printf.sprintf "LS:%s:%s:%s:%s:%s" tag nm ch (hex_of_bytes e.ev_id) dg in
          out := (if with_parent then tok ^ ":p" ^ bool_str e.ev_parent else tok) :: !out) got) indexed in
    List.iter (fun (sty, sl) ->
      List.iter (fun c ->
        List.iter (fun (ty, al) ->
          deliver { l_style = sty; l_store = d.sd_name; l_types = [ty] } (sl ^ al) (Some (change_str c)) (sty <> LIdOnly) false)
          (types_of c)) [Created; Updated; Deleted]) filter_styles;
    deliver { l_style = LConstraint; l_store = d.sd_name; l_types = [] } "c" None true true;
    deliver { l_style = LUntypedConstraint; l_store = d.sd_name; l_types = [] } "uc" None true true) sch;
  List.sort compare !out

(* ---- registrations with several change types (REGS section; harness store_c08_w2.go) ----
   <style>:<store>:<types>, types over C U D (sync) / c u d (async) in the order of the Add*Listener call;
   a delivery to registration k prints LM:<k>:<style>:<store>:<types>:<hex id>:<digest> *)
let etype_of_char = function
  | 'C' -> ECreated | 'U' -> EUpdated | 'D' -> EDeleted
  | 'c' -> ECreatedAsync | 'u' -> EUpdatedAsync | _ -> EDeletedAsync

(* fifth strengthening (Store/EventsReg.v; harness store_c08_regpass.go): an optional fourth field says HOW the caller hands
   the additional types to the Add*Listener call - l spelled out, z an empty slice, b<g> the caller's buffer g (one array
   with spare capacity, re-filled and passed to every registration that names it), s<k> a slice with k spare cells that
   the caller overwrites after the call.  The driver plays the caller's program of the whole REGS section against the
   registration expression of store_crud.go ([reg_pinned]) on the modelled heap and takes every listener's types from what
   its registration holds AT THE END ([reg_types]); Properties/C08.v registration_types_fixed says that these are the types
   named in the call, which is asserted here per registration. *)
let split_reg (tok : string) : string * string * string * string =
  match String.split_on_char ':' tok with
  | [sty; store; types] -> (sty, store, types, "l")
  | [sty; store; types; pass] -> (sty, store, types, pass)
  | _ -> failwith ("bad registration " ^ tok)

let scribble_type (types : string) : etype =
  let up = String.uppercase_ascii types in
  match List.filter (fun k -> not (String.contains up k)) ['C'; 'U'; 'D'] with
  | k :: _ -> etype_of_char k
  | [] -> etype_of_char types.[0]

let reg_buf_cap = 4

let parse_regs (toks : string list) : (string * listener) list =
  let st = ref (heap_empty, []) in
  let act a = st := cstep (reg_pinned []) !st a in
  let make cells = let id = (fst !st).h_next in act (CMake cells); id in
  let bufs = Hashtbl.create 4 in
  let named = List.map (fun tok ->
    let (sty, store, types, pass) = split_reg tok in
    let style = (match sty with "t" -> LTyped | "f" -> LFunction | "u" -> LUntyped | "i" -> LIdOnly
                              | _ -> failwith ("bad registration style " ^ tok)) in
    if types = "" then failwith ("bad registration " ^ tok);
    let tys = List.init (String.length types) (fun i -> etype_of_char types.[i]) in
    let first = List.hd tys and extras = List.tl tys in
    let n = List.length extras in
    (match pass with
     | "l" | "z" ->
         if n = 0 then act (CRegister (first, nil_slice))
         else begin
           let id = make extras in
           act (CRegister (first, { s_arr = id; s_off = nat_of_int 0; s_len = nat_of_int n; s_cap = nat_of_int n }))
         end
     | _ when String.length pass = 2 && pass.[0] = 'b' ->
         (* the cells of a fresh buffer hold Go's zero value, which is no change type: any content *)
         let id = (match Hashtbl.find_opt bufs pass with
                   | Some id -> id
                   | None -> let id = make (List.init reg_buf_cap (fun _ -> first)) in Hashtbl.add bufs pass id; id) in
         List.iteri (fun i v -> act (CWrite (id, nat_of_int i, v))) extras;
         act (CRegister (first, { s_arr = id; s_off = nat_of_int 0; s_len = nat_of_int n; s_cap = nat_of_int reg_buf_cap }))
     | _ when String.length pass = 2 && pass.[0] = 's' ->
         let k = Char.code pass.[1] - Char.code '0' in
         let id = make (extras @ List.init k (fun _ -> first)) in
         act (CRegister (first, { s_arr = id; s_off = nat_of_int 0; s_len = nat_of_int n; s_cap = nat_of_int (n + k) }));
         let x = scribble_type types in
         for i = 0 to n + k - 1 do act (CWrite (id, nat_of_int i, x)) done
     | _ -> failwith ("bad registration " ^ tok));
    (Printf.sprintf "%s:%s:%s" sty store types, style, name_of_string store, tys)) toks in
  let held = reg_types !st in
  if List.length held <> List.length named then failwith "registration model: a registration is missing";
  List.map2 (fun (key, style, store, tys) now ->
    if now <> tys then failwith ("registration model: " ^ key ^ " no longer holds the types named in the call");
    (key, { l_style = style; l_store = store; l_types = now })) named held

let multi_tokens (regs : (string * listener) list) (sevs : sevent list) : string list =
  let out = ref [] in
  List.iteri (fun k (tok, l) ->
    List.iter (fun se ->
      List.iter (fun ((e : event), _async) ->
        let dg = if l.l_style <> LIdOnly then view_digest se.se_view else "-" in
        out := Printf.sprintf "LM:%d:%s:%s:%s" k tok (hex_of_bytes e.ev_id) dg :: !out)
        (delivered_to l [se.se_ev])) sevs) regs;
  List.sort compare !out

(* ---- hook programs (alphabet: harness/cmd/storageharness/store_c08.go c08Exec) ----
   A program token becomes the context the caller prepared before the transaction (Store/TxHooks.v mctx)
   and the item tree of the function; '.' takes the next operation of the TX section, operations without
   a '.' are issued at the end of the outermost function.  Labels: commit action c<k> = k, the commit
   action q<k> a 'q' pre-commit action adds = 500 + k, pre-commit action p<k> = k. *)
let q_base = 500
let commit_label (k : int) : string = if k >= q_base then Printf.sprintf "q%d" (k - q_base) else Printf.sprintf "c%d" k
let default_prog (t : tx) : string =
  "|cp" ^ (if t.tx_precommit_fails then "f" else "") ^ String.make (List.length t.tx_ops) '.' ^ "c"

(* third strengthening (Store/TxShared.v): the pseudo veto "@rawtx" says that the CALLER opened the bbolt transaction and
   built the primary context around it with NewTxMutateContext (opener ByCaller); program letter 'x' .. ')' at the top
   level of the function = a block executed with a second context NewTxMutateContext(ctx.Context(), ctx.Tx()) (TCtx) *)
let raw_store = "@rawtx"
let is_raw (t : tx) : bool = List.exists (fun ((s, _), _) -> string_of_name s = raw_store) t.tx_vetoes

let parse_prog (prog : string) (ops : op list) : mctx * titem list =
  let n = String.length prog in
  let nc = ref 0 and np = ref 0 in
  let ops = ref ops in
  let reg ch : hitem =
    match ch with
    | 'c' -> let k = !nc in incr nc; HAddCommit (nat_of_int k)
    | _ -> let k = !np in incr np;
           HAddPre (nat_of_int k, (match ch with 'p' -> PkOk | 'f' -> PkFail | _ -> PkAddsCommit (nat_of_int (q_base + k)))) in
  let start = (match String.index_opt prog '|' with Some i -> i | None -> -1) in
  let pre = ref [] and com = ref [] in
  for i = 0 to start - 1 do
    match reg prog.[i] with
    | HAddCommit k -> com := !com @ [k]
    | HAddPre (k, pk) -> pre := !pre @ [(k, pk)]
    | _ -> ()
  done;
  let pos = ref (start + 1) in
  (* inside a nested call / a second-context block: up to the closing ')' *)
  let rec items () : hitem list =
    if !pos >= n then []
    else begin
      let ch = prog.[!pos] in
      incr pos;
      match ch with
      | ')' -> []
      | '.' -> (match !ops with
                | o :: r -> ops := r; let it = HOp o in it :: items ()
                | [] -> items ())
      | 'c' | 'p' | 'f' | 'q' -> let it = reg ch in it :: items ()
      | 'u' | 'b' -> let body = items () in let it = HNest ((ch = 'b'), body) in it :: items ()
      | 'x' -> failwith ("hook program " ^ prog ^ ": a second context inside a nested call / another second context is not modelled")
      | _ -> items ()
    end in
  let rec top () : titem list =
    if !pos >= n then []
    else begin
      let ch = prog.[!pos] in
      incr pos;
      match ch with
      | '.' -> (match !ops with
                | o :: r -> ops := r; let it = TOwn (HOp o) in it :: top ()
                | [] -> top ())
      | 'c' | 'p' | 'f' | 'q' -> let it = TOwn (reg ch) in it :: top ()
      | 'u' | 'b' -> let body = items () in let it = TOwn (HNest ((ch = 'b'), body)) in it :: top ()
      | 'x' -> let body = items () in let it = TCtx body in it :: top ()
      | _ -> top ()
    end in
  let body = top () in
  let body = body @ List.map (fun o -> TOwn (HOp o)) !ops in
  ({ mc_pre = !pre; mc_commit = !com }, body)

let count_of (k : nat) (l : nat list) : int = List.length (List.filter (fun x -> x = k) l)

let () =
  let fuel = nat_of_int 64 in
  iter_lines (fun line ->
    toks := Array.of_list (split_ws line);
    pos := 0;
    if Array.length !toks = 0 then print_endline "" else begin
      let mode = (match peek () with Some "MODE" -> ignore (next ()); next () | _ -> "upd") in
      let progs = (match peek () with
                   | Some "HOOKS" -> ignore (next ()); let n = next_int () in Array.of_list (repeat n next)
                   | _ -> [||]) in
      let regs = (match peek () with
                  | Some "REGS" -> ignore (next ()); let n = next_int () in parse_regs (repeat n next)
                  | _ -> []) in
      (* a caller that swallows vetoes leaves the machine's transaction discipline: not modelled *)
      if mode = "swl" then toks := [||];
      if mode = "swl" then print_endline "SKIP" else begin
      (match peek () with Some "WIRING" -> ignore (next ()); ignore (next ()) | _ -> ());
      (match next () with "SCH" -> () | t -> failwith ("expected SCH got " ^ t));
      let ns = next_int () in
      let sch = repeat ns parse_store in
      let st = ref st_empty in
      let buf = Buffer.create 4096 in
      let txi = ref 0 in
      while peek () <> None do
        let t = parse_tx () in
        let prog = if !txi < Array.length progs then progs.(!txi) else default_prog t in
        incr txi;
        let (ctx0, body) = parse_prog prog t.tx_ops in
        let opn = if is_raw t then ByCaller else ByDb in
        (* the transaction under its program (Store/TxShared.v shared_update: Db.Update / Db.Batch - the same since the
           tx-complete fix - or a caller-managed transaction; secondary contexts) *)
        let o = shared_update sch fuel !st t.tx_sys t.tx_vetoes opn ctx0 body in
        let same (a : hook_obs) (b : hook_obs) : bool =
          a.ho_results = b.ho_results && a.ho_committed = b.ho_committed && a.ho_events = b.ho_events
          && a.ho_commit_runs = b.ho_commit_runs && a.ho_pre_runs = b.ho_pre_runs && a.ho_tc = b.ho_tc in
        (* cross-checks: the program's transaction is the case line's transaction; the instrumented and the
           plain machine deliver the same results, commit flag, state-relevant events (shared_update_refines_run_tx_v,
           run_tx_v_events); a program of Store/TxHooks.v is observed as by db_update (shared_update_extends_db_update);
           the program without its nested calls is observed identically (nested_join_transparent) *)
        let ht = shared_tx opn t.tx_sys t.tx_vetoes ctx0 body in
        if ht.tx_ops <> t.tx_ops || ht.tx_precommit_fails <> t.tx_precommit_fails then
          failwith ("hook program " ^ prog ^ " does not describe its transaction");
        let v = run_tx_v sch fuel !st t in
        if v.to_results <> o.ho_results || v.to_committed <> o.ho_committed || v.to_events <> o.ho_events then
          failwith "shared_update disagrees with run_tx_v";
        let (((rs0, c0), _), evs0) = run_tx sch fuel !st t in
        if rs0 <> o.ho_results || c0 <> o.ho_committed || evs0 <> List.map (fun se -> se.se_ev) o.ho_events then
          failwith "shared_update disagrees with run_tx";
        let own = List.concat (List.map (function TOwn it -> [it] | TCtx _ -> []) body) in
        if opn = ByDb && List.length own = List.length body then begin
          let o2 = db_update sch fuel !st t.tx_sys t.tx_vetoes ctx0 own in
          if not (same o o2) then failwith "shared_update disagrees with db_update";
          if registered_commits ctx0 own <> shared_registered_commits opn ctx0 body then
            failwith "registered commit actions differ between TxHooks.v and TxShared.v"
        end;
        let flat = List.concat (List.map (function TOwn it -> List.map (fun x -> TOwn x) (flatten [it])
                                                    | TCtx b -> [TCtx (flatten b)]) body) in
        if not (same o (shared_update sch fuel !st t.tx_sys t.tx_vetoes opn ctx0 flat)) then
          failwith "nested calls are not transparent";
        st := o.ho_state;
        Buffer.add_string buf "TX R";
        List.iter (fun r -> Buffer.add_char buf ' '; Buffer.add_string buf (kind_str r)) o.ho_results;
        Buffer.add_string buf (if o.ho_committed then " COMMIT" else " ROLLBACK");
        let evl = List.sort compare (List.map (fun se -> let e = se.se_ev in
          Printf.sprintf "EV:%s:%s:%s:%s" (string_of_name e.ev_store) (change_str e.ev_change) (hex_of_bytes e.ev_id) (bool_str e.ev_parent)) o.ho_events) in
        List.iter (fun e -> Buffer.add_char buf ' '; Buffer.add_string buf e) evl;
        List.iter (fun e -> Buffer.add_char buf ' '; Buffer.add_string buf e) (listener_tokens sch o.ho_events);
        List.iter (fun e -> Buffer.add_char buf ' '; Buffer.add_string buf e) (multi_tokens regs o.ho_events);
        (* commit: every registration with its executions; rollback: only executions that must not be there (the
           pre-commit actions of a transaction whose function succeeded are not printed, see store_c08.go runTx) *)
        let body_failed = List.exists (fun r -> r <> None) o.ho_results in
        let ca = if o.ho_committed then List.sort_uniq compare (shared_registered_commits opn ctx0 body @ o.ho_commit_runs)
                 else List.sort_uniq compare o.ho_commit_runs in
        (* a committed transaction prints every registered pre-commit action: those somebody runs (live_pres) and those
           on contexts built around an existing transaction (dead_pres: 0 executions) *)
        let pa = if o.ho_committed then List.sort_uniq compare (List.map fst (live_pres opn ctx0 body) @ List.map fst (dead_pres opn ctx0 body) @ o.ho_pre_runs)
                 else if body_failed then List.sort_uniq compare o.ho_pre_runs else [] in
        let ca_toks = List.sort compare (List.map (fun k ->
          Printf.sprintf "CA:%s:%d" (commit_label (int_of_nat k)) (count_of k o.ho_commit_runs)) ca) in
        let pa_toks = List.sort compare (List.map (fun k ->
          Printf.sprintf "PA:p%d:%d" (int_of_nat k) (count_of k o.ho_pre_runs)) pa) in
        List.iter (fun e -> Buffer.add_char buf ' '; Buffer.add_string buf e) ca_toks;
        List.iter (fun e -> Buffer.add_char buf ' '; Buffer.add_string buf e) pa_toks;
        Buffer.add_string buf (Printf.sprintf " TC:%d" (int_of_nat o.ho_tc));
        Buffer.add_string buf " ST";
        List.iter (fun f -> Buffer.add_char buf ' '; Buffer.add_string buf f) (facts sch !st);
        Buffer.add_string buf " | "
      done;
      print_endline (Buffer.contents buf)
      end
    end)
