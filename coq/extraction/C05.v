From Coq Require Import Extraction ExtrOcamlBasic NArith ZArith.
From Storage Require Import Base.Bytes Links.LinkModel Links.SetLinksMerge Links.RefCount Links.LinkMachine Links.HierMachine Links.HierWhere Links.HierStrategy.
Extraction Language OCaml.
Definition force_types : nat * N * Z := (O, 0%N, 0%Z).
Extraction "c05_model.ml" force_types init_state step run_ops first_failure run_tx
  pres lnk rc rows get_links is_linked rc_rows get_link_counts set_links set_links_diff sort_ids
  hinit hstep run_hops hfirst_failure run_htx view lvl nkids npairs ext_blocked
  has_plain has_rc xstep run_xops xfirst_failure run_xtx where_ids
  sstep run_sops sfirst_failure run_stx.
