(* C19 driver.  Case lines (see harness/cmd/storageharness/c19.go):
     D <n> <ncols> { <id> <cell>*ncols }*n       dataset, rows in ascending id order; becomes current
     Q <order> <filter> <nsort> { <col|id> <b|i|f|s|t> <a|d> }* <skip|-> <limit|-|none>
        order : comma separated row indices = the order in which the object store's iterator
                delivers the objects ( - when there are none )
        filter (prefix form):
           T | F | N f | A f g | O f g
           cmp <col> <type> <eq|ne|lt|le|gt|ge> <lit> | null <col> <type> <0|1 = negated>
           has <col> <type> <neg 0|1> <icase 0|1> <lit> | in <col> <type> <k> <lit>*k
           btw <col> <type> <lit> <lit> | sym <col> <type>
        lit : S<hex|-> | I<dec> | F<16 hex> | B0 | B1 | T<sec>:<nsec>
     S                                           the object stores are replaced by new instances (a new session;
                                                 the model has no state: Query/ObjectSession.v)
     QV <style> <order> ...                      Q whose text is spelled differently outside its literals (c19seq.go):
                                                 the same query
   Output:  objectz=<count>:<ids> boltz=<count>:<ids> spec=<count>:<ids> legacy=<count>:<ids> ok=<0|1> *)
let parse_cell (t : string) : cell =
  let rest () = String.sub t 1 (String.length t - 1) in
  match t.[0] with
  | 'N' -> CNull
  | 'B' -> CBool (t = "B1")
  | 'I' -> CInt (z_of_dec (rest ()))
  | 'F' -> CFloat (n_of_hex64 (rest ()))
  | 'S' -> CStr (bytes_of_hex (rest ()))
  | 'T' -> (match String.split_on_char ':' (rest ()) with
            | [s; n] -> CTime (z_of_dec s, n_of_u64 (Int64.of_string n))
            | _ -> failwith "bad time")
  | _ -> failwith ("bad cell " ^ t)

let parse_lit (t : string) : lit =
  match parse_cell t with
  | CStr s -> LStr s | CInt z -> LInt z | CFloat b -> LFloat b | CBool b -> LBool b
  | CTime (s, n) -> LTime (s, n) | CNull -> failwith "null literal"

let ktype_of = function
  | "b" -> TBool | "i" -> TInt | "f" -> TFloat | "s" -> TStr | "t" -> TTime
  | x -> failwith ("bad type " ^ x)
let col_of col ty = if col = "id" then ColId else Col (nat_of_int (int_of_string col), ktype_of ty)
let op_of = function
  | "eq" -> OEq | "ne" -> ONeq | "lt" -> OLt | "le" -> OLte | "gt" -> OGt | "ge" -> OGte
  | x -> failwith ("bad op " ^ x)

let ids_str (l : n list list) : string =
  if l = [] then "-" else String.concat "," (List.map hex_of_bytes l)
let res_str ((ids, cnt) : n list list * z) : string = dec_of_z cnt ^ ":" ^ ids_str ids

let rec take k l = if k = 0 then ([], l) else match l with x :: r -> let (a, b) = take (k - 1) r in (x :: a, b) | [] -> failwith "short"

(* returns (filter, remaining tokens) *)
let rec parse_filter (toks : string list) : sfilter * string list =
  match toks with
  | "T" :: r -> (FTrue, r)
  | "F" :: r -> (FFalse, r)
  | "N" :: r -> let (f, r') = parse_filter r in (FNot f, r')
  | "A" :: r -> let (f, r1) = parse_filter r in let (g, r2) = parse_filter r1 in (FAnd (f, g), r2)
  | "O" :: r -> let (f, r1) = parse_filter r in let (g, r2) = parse_filter r1 in (FOr (f, g), r2)
  | "cmp" :: c :: t :: op :: l :: r -> (FAtom (ACmp (col_of c t, op_of op, parse_lit l)), r)
  | "null" :: c :: t :: neg :: r -> (FAtom (AIsNull (col_of c t, neg = "1")), r)
  | "has" :: c :: t :: neg :: ic :: l :: r -> (FAtom (AContains (col_of c t, neg = "1", ic = "1", parse_lit l)), r)
  | "in" :: c :: t :: k :: r ->
      let (ls, r') = take (int_of_string k) r in (FAtom (AIn (col_of c t, List.map parse_lit ls)), r')
  | "btw" :: c :: t :: lo :: hi :: r -> (FAtom (ABetween (col_of c t, parse_lit lo, parse_lit hi)), r)
  | "sym" :: c :: t :: r -> (FAtom (ASym (col_of c t)), r)
  | _ -> failwith "bad filter"

let current : row list ref = ref []
let opt_z = function "-" -> None | "none" -> Some (z_of_int (-1)) | s -> Some (z_of_dec s)

let () =
  iter_lines (fun line ->
    match split_ws line with
    | "D" :: n :: nc :: rest ->
        let n = int_of_string n and nc = int_of_string nc in
        let rec rows k toks acc =
          if k = 0 then List.rev acc else
          match toks with
          | id :: more ->
              let (cells, more') = take nc more in
              rows (k - 1) more' ({ r_id = bytes_of_hex id; r_cells = List.map parse_cell cells } :: acc)
          | [] -> failwith "short dataset" in
        current := rows n rest [];
        print_endline "D"
    | "S" :: _ -> print_endline "S"
    | "Q" :: order :: rest | "QV" :: _ :: order :: rest ->
        let rows = !current in
        let objs = if order = "-" then [] else
          List.map (fun i -> List.nth rows (int_of_string i)) (String.split_on_char ',' order) in
        let (f, rest1) = parse_filter rest in
        (match rest1 with
         | ns :: rest2 ->
            let ns = int_of_string ns in
            let rec fields k toks acc =
              if k = 0 then (List.rev acc, toks) else
              match toks with
              | col :: ty :: dir :: more -> fields (k - 1) more ({ sf_col = col_of col ty; sf_asc = (dir = "a") } :: acc)
              | _ -> failwith "short sort" in
            let (fs, rest3) = fields ns rest2 [] in
            let (sk, lim) = (match rest3 with [a; b] -> (opt_z a, opt_z b) | _ -> failwith "bad paging") in
            let p = { pg_skip = sk; pg_limit = lim } in
            Printf.printf "objectz=%s boltz=%s spec=%s legacy=%s ok=%s\n"
              (res_str (objectz_query f fs p objs))
              (res_str (boltz_query f fs p rows))
              (res_str (query_spec fs p (filter_spec f) rows))
              (res_str (objectz_query_legacy f fs p objs))
              (bool_str (filter_ok f))
         | [] -> failwith "short query")
    | [] -> ()
    | _ -> print_endline "?")
