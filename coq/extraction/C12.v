From Coq Require Import Extraction ExtrOcamlBasic NArith ZArith.
From Storage Require Import Base.Bytes Lang.Tokens Lang.Lexer Lang.BoolGrammar Lang.Listener Lang.BoolSurface Lang.Regex Lang.LexerFull Lang.WordOps.
Extraction Language OCaml.
Definition force_types : nat * N * Z := (O, 0%N, 0%Z).
Extraction "c12_model.ml" force_types lex_skeleton toks_of drops_of parse_start listener compile eval sem sem_dnf
  legacy_prec fixed_prec printE atom_ok str_eqb lex_full norm neg_flags op_negated.
