(* Store-family driver (C03 C04 C06 C07 C08 C15 C16): runs histories through the extracted
   store machine and prints, per transaction, op results, commit flag, delivered events and the
   canonical facts of the resulting state.  See harness/cmd/storageharness/store.go for the format. *)
let name_of_string (s : string) : n list =
  List.init (String.length s) (fun i -> n_of_int (Char.code s.[i]))
let string_of_name (l : n list) : string =
  String.concat "" (List.map (fun b -> String.make 1 (Char.chr (int_of_n b))) l)

let toks = ref [||]
let pos = ref 0
let next () = let t = !toks.(!pos) in incr pos; t
let peek () = if !pos < Array.length !toks then Some !toks.(!pos) else None
let next_int () = int_of_string (next ())
let next_bool () = next () = "1"
let next_name () = name_of_string (next ())
let next_hex () = bytes_of_hex (next ())
let rec repeat k f = if k <= 0 then [] else let x = f () in x :: repeat (k - 1) f

let parse_cons () =
  match next () with
  | "U" -> let f = next_name () in let nl = next_bool () in CUnique (f, nl)
  | "SI" -> CSetIdx (next_name ())
  | "FI" -> let f = next_name () in let t = next_name () in let b = next_name () in let nl = next_bool () in CFkIndex (f, t, b, nl)
  | "FR" -> CFkRestrict (next_name ())
  | "FC" -> let f = next_name () in let t = next_name () in let nl = next_bool () in CFkCons (f, t, nl)
  | "CA" -> let r = next_name () in let f = next_name () in let c = (match next () with "D" -> CascDelete | _ -> CascNone) in CFkCascade (r, f, c)
  | "SY" -> CSystem
  | t -> failwith ("bad cons " ^ t)

let parse_store () =
  (match next () with "ST" -> () | t -> failwith ("expected ST got " ^ t));
  let nm = next_name () in
  let parent = (match next () with "-" -> None | p -> Some (name_of_string p)) in
  let ext = next_bool () in
  let nf = next_int () in
  let fields = repeat nf (fun () -> let f = next_name () in let p = next_bool () in (f, p)) in
  let ns = next_int () in
  let sets = repeat ns next_name in
  let nc = next_int () in
  let cons = repeat nc parse_cons in
  let nl = next_int () in
  let links = repeat nl (fun () -> let a = next_name () in let b = next_name () in let c = next_name () in ((a, b), c)) in
  { sd_name = nm; sd_parent = parent; sd_ext = ext; sd_fields = fields; sd_sets = sets; sd_cons = cons; sd_links = links }

let parse_fv () =
  let n = next_int () in
  repeat n (fun () -> let f = next_name () in let v = (match next () with "N" -> None | h -> Some (bytes_of_hex h)) in (f, v))
let parse_sv () =
  let n = next_int () in
  repeat n (fun () -> let f = next_name () in let k = next_int () in let l = repeat k next_hex in (f, l))
let parse_change () = match next () with "C" -> Created | "U" -> Updated | _ -> Deleted

let parse_op () =
  match next () with
  | "C" -> let s = next_name () in let i = next_hex () in let sys = next_bool () in let fv = parse_fv () in let sv = parse_sv () in OCreate (s, i, sys, fv, sv)
  | "UP" -> let s = next_name () in let i = next_hex () in let fv = parse_fv () in let sv = parse_sv () in
      let ch = (match next () with "-" -> None | k -> Some (repeat (int_of_string k) next_name)) in
      OUpdate (s, i, fv, sv, ch)
  | "D" -> let s = next_name () in let i = next_hex () in ODelete (s, i)
  | "AL" -> let s = next_name () in let i = next_hex () in let lf = next_name () in let k = next_int () in let ts = repeat k next_hex in OAddLinks (s, i, lf, ts)
  | "RL" -> let s = next_name () in let i = next_hex () in let lf = next_name () in let k = next_int () in let ts = repeat k next_hex in ORemoveLinks (s, i, lf, ts)
  | "FAIL" -> OFail
  | "FAILT" -> ignore (next ()); ignore (next ()); OFail
  | t -> failwith ("bad op " ^ t)

(* derived operations (Store/XOps.v): DW <store> T | DW <store> EQ <field> <hexvalue> ;
   G <badtags> <k> (<store> <field>)*k <C .. | UP ..>  = the create / update is subject to the rejections of PersistEntity *)
let parse_xop () =
  match peek () with
  | Some "DW" ->
      ignore (next ());
      let s = next_name () in
      (match next () with
       | "T" -> XDeleteWhere (s, DwTrue)
       | "EQ" -> let f = next_name () in let v = next_hex () in XDeleteWhere (s, DwFieldEq (f, v))
       | t -> failwith ("bad DW filter " ^ t))
  | Some "G" ->
      ignore (next ());
      let bt = next_bool () in
      let k = next_int () in
      let req = repeat k (fun () -> let s = next_name () in let f = next_name () in (s, f)) in
      XPersist (bt, req, parse_op ())
  | _ -> XBase (parse_op ())

(* single-link operations (Store/LinkOne.v): AL1 / RL1 <store> <id> <linkfield> <k> <target>*k = one LinkCollection.AddLink /
   RemoveLink call per target ; LQ <store> <id> <setfield> <k> <target>*k = membership probes inside the transaction *)
let parse_lop () =
  let link mk = ignore (next ()); let s = next_name () in let i = next_hex () in let lf = next_name () in
    let k = next_int () in let ts = repeat k next_hex in mk s i lf ts in
  match peek () with
  | Some "AL1" -> link (fun s i lf ts -> LAddLink (s, i, lf, ts))
  | Some "RL1" -> link (fun s i lf ts -> LRemoveLink (s, i, lf, ts))
  | Some "LQ" -> link (fun s i lf ts -> LIsLinked (s, i, lf, ts))
  | _ -> LBase (parse_xop ())

(* a transaction whose body contains only plain operations runs through run_tx exactly as before *)
let parse_tx () =
  (match next () with "TX" -> () | t -> failwith ("expected TX got " ^ t));
  let sys = next_bool () in
  let pcf = next_bool () in
  let nv = next_int () in
  let vetoes = repeat nv (fun () -> let s = next_name () in let c = parse_change () in let i = next_hex () in ((s, c), i)) in
  let no = next_int () in
  let lops = repeat no parse_lop in
  if List.exists (function LBase _ -> false | _ -> true) lops then
    `Linked { ltx_sys = sys; ltx_vetoes = vetoes; ltx_ops = lops; ltx_precommit_fails = pcf }
  else
  let xops = List.map (function LBase x -> x | _ -> XBase OFail) lops in
  (* C07: pseudo vetoes "@c07pc" / "@c07open" = actions registered through contexts derived from the transaction's
     context (Store/TxCtx.v; token format in harness/cmd/storageharness/store_c07_ctx.go) *)
  let pseudo nm = List.filter_map (fun ((s, _), i) -> if string_of_name s = nm then Some (string_of_name i) else None) vetoes in
  (* C07: panic marks (Store/TxPanic.v; token format in harness/cmd/storageharness/store_c07_panic.go): "@c07pn fail:<joins>" = the
     FAIL steps panic, "@c07pn persist:<k>:<level>" = PersistEntity panics during operation k, "@c07v <stage>:panic" = the vetoing
     constraint panics, "@c07pc <site>:<path>:p" = a pre-commit action that panics *)
  let ends_with suf s = let n = String.length suf and m = String.length s in m >= n && String.sub s (m - n) n = suf in
  let pn_marks = pseudo "@c07pn" in
  let veto_panics = List.exists (ends_with ":panic") (pseudo "@c07v") in
  let has_panic = pn_marks <> [] || veto_panics || List.exists (ends_with ":p") (pseudo "@c07pc") in
  if pseudo "@c07pc" <> [] || pseudo "@c07open" <> [] || has_panic then begin
    let opn = (match pseudo "@c07open" with m :: _ -> m | [] -> "") in
    let nil = (opn = "nil") in
    let wstep = function 's' -> Some WGetSys | 'n' -> Some WNewSys | 'u' -> Some WUpdCtx | _ -> None in
    let dstep ch = match ch with
      | 'U' -> Some (DJoin false) | 'B' -> Some (DJoin true) | 'x' -> Some DNewTx
      | _ -> (match wstep ch with Some w -> Some (DWrap w) | None -> None) in
    let chars s = List.init (String.length s) (String.get s) in
    let label = ref 0 in
    let panic_labels = ref [] in
    let regs = List.map (fun r ->
      match String.split_on_char ':' r with
      | [site; path; kind] ->
          incr label;
          let a = (match kind with "c" -> ACommit (nat_of_int !label) | k -> APre (nat_of_int !label, k = "f" || k = "p")) in
          if kind = "p" then panic_labels := !label :: !panic_labels;
          let path = if path = "-" then "" else path in
          ((if site = "pre" then (if nil then 0 else -1) else int_of_string site), path, a)
      | _ -> failwith ("bad @c07pc " ^ r)) (pseudo "@c07pc") in
    (* the transaction's own flag = the action the harness registers on the context object before Db.Update *)
    let regs = (if pcf then [((if nil then 0 else -1), "", APre (O, true))] else []) @ regs in
    let before = List.filter_map (fun (site, path, a) ->
      if site < 0 then Some (List.filter_map wstep (chars path), a) else None) regs in
    let body = List.concat (List.mapi (fun k x ->
      List.filter_map (fun (site, path, a) ->
        if site = k || (k = no && site > no) then Some (IReg (List.filter_map dstep (chars path), a)) else None) regs
      @ (match x with Some x -> [IOp x] | None -> [])) (List.map (fun x -> Some x) xops @ [None])) in
    let cp_open = (if sys && opn = "" then [WGetSys] else []) in
    if has_panic then begin
      let fail_joins = List.filter_map (fun m -> match String.split_on_char ':' m with
        | ["fail"; j] -> Some (List.filter_map (function 'U' -> Some false | 'B' -> Some true | _ -> None) (chars j)) | _ -> None) pn_marks in
      let persist_at = List.filter_map (fun m -> match String.split_on_char ':' m with
        | ["persist"; k; _] -> int_of_string_opt k | _ -> None) pn_marks in
      let opno = ref (-1) in
      let pbody = List.map (fun it -> match it with
        | IOp x ->
            incr opno;
            if List.mem !opno persist_at && (match x with XBase (OCreate _) | XBase (OUpdate _) | XPersist _ -> true | _ -> false) then PPanicIn x
            else (match x, fail_joins with XBase OFail, j :: _ -> PPanicHere j | _ -> PI it)
        | _ -> PI it) body in
      let pl = !panic_labels in
      `Panic (sys, vetoes, veto_panics,
              { pp_nil = nil; pp_open = cp_open; pp_before = before; pp_body = pbody;
                pp_pre_panics = (fun k -> List.mem (int_of_nat k) pl) })
    end else
    `Ctx (sys, vetoes, { cp_nil = nil; cp_open = cp_open; cp_before = before; cp_body = body })
  end else
  if List.for_all (function XBase _ -> true | _ -> false) xops then
    `Plain { tx_sys = sys; tx_vetoes = vetoes; tx_ops = List.map (function XBase o -> o | _ -> OFail) xops; tx_precommit_fails = pcf }
  else
    `Derived { xtx_sys = sys; xtx_vetoes = vetoes; xtx_ops = xops; xtx_precommit_fails = pcf }

(* C07: the pseudo veto "@c07hk" asks for the executions of the hooks the C07 harness registers (Store/TxQuiet.v
   std_hooks: store-level listeners of every style, tx-complete listeners), per kind, as HK:<kind>:<n> tokens (n > 0) *)
let tx_veto_list = function
  | `Plain t -> t.tx_vetoes | `Derived t -> t.xtx_vetoes | `Linked t -> t.ltx_vetoes | `Ctx (_, vetoes, _) -> vetoes
  | `Panic (_, vetoes, _, _) -> vetoes
let wants_hook_counts t = List.exists (fun ((s, _), _) -> string_of_name s = "@c07hk") (tx_veto_list t)
let hk_kind (l : listener) : string =
  let letter = (match l.l_style with
    | LTyped -> "t" | LFunction -> "f" | LUntyped -> "u" | LIdOnly -> "i" | LConstraint -> "c" | LUntypedConstraint -> "uc") in
  match l.l_style, l.l_types with
  | (LConstraint | LUntypedConstraint), _ -> letter
  | _, [ty] -> letter ^ (if et_is_async ty then "a" else "s")
  | _, _ -> "m" ^ letter
let hook_tokens sch committed evs : string list =
  let (per, tc) = hook_counts (std_hooks sch) committed evs in
  let tbl = Hashtbl.create 16 in
  List.iter (fun (l, n) -> let k = hk_kind l in
    Hashtbl.replace tbl k (int_of_nat n + (try Hashtbl.find tbl k with Not_found -> 0))) per;
  Hashtbl.replace tbl "tc" (int_of_nat tc);
  List.sort compare (Hashtbl.fold (fun k n acc -> if n > 0 then Printf.sprintf "HK:%s:%d" k n :: acc else acc) tbl [])

let fval_str = function
  | FAbsent -> "absent" | FNil -> "nil" | FStr s -> "s" ^ hex_of_bytes s | FBool b -> if b then "b1" else "b0"

let kind_str = function
  | None -> "ok" | Some EDuplicate -> "dup" | Some ENotFound -> "notfound" | Some ERefExists -> "refexists"
  | Some EOther -> "err" | Some EOutOfFuel -> "FUEL"

let change_str = function Created -> "C" | Updated -> "U" | Deleted -> "D"

let facts (sch : sdef list) (st : state) : string list =
  let out = ref [] in
  let add s = out := s :: !out in
  List.iter (fun d ->
    match d.sd_parent with
    | Some _ -> ()
    | None ->
      let r = d.sd_name in
      let rn = string_of_name r in
      List.iter (fun (i, e) ->
        let ih = hex_of_bytes i in
        add (Printf.sprintf "E:%s:%s" rn ih);
        List.iter (fun (f, v) -> add (Printf.sprintf "F:%s:%s:%s:%s" rn ih (string_of_name f) (fval_str v))) e.e_f;
        List.iter (fun (f, l) -> List.iter (fun m -> add (Printf.sprintf "S:%s:%s:%s:%s" rn ih (string_of_name f) (hex_of_bytes m))) l) e.e_s;
        List.iter (fun (c, cd) ->
          add (Printf.sprintf "C:%s:%s:%s" rn ih (string_of_name c));
          List.iter (fun (f, v) -> add (Printf.sprintf "CF:%s:%s:%s:%s:%s" rn ih (string_of_name c) (string_of_name f) (fval_str v))) cd) e.e_c
      ) (st.ents r);
      (* indexes of the root store and of its child stores live under the root's entity type *)
      let owners = d :: children_of sch r in
      List.iter (fun o ->
        List.iter (fun k ->
          match k with
          | CUnique (f, _) ->
              List.iter (fun (v, i) -> add (Printf.sprintf "U:%s:%s:%s:%s" rn (string_of_name f) (hex_of_bytes v) (hex_of_bytes i))) (st.uidx r f)
          | CSetIdx f ->
              List.iter (fun (v, l) ->
                add (Printf.sprintf "XK:%s:%s:%s" rn (string_of_name f) (hex_of_bytes v));
                List.iter (fun i -> add (Printf.sprintf "X:%s:%s:%s:%s" rn (string_of_name f) (hex_of_bytes v) (hex_of_bytes i))) l) (st.sidx r f)
          | _ -> ()) o.sd_cons) owners
  ) sch;
  List.sort_uniq compare !out

let () =
  let fuel = nat_of_int 64 in
  iter_lines (fun line ->
    toks := Array.of_list (split_ws line);
    pos := 0;
    if Array.length !toks = 0 then print_endline "" else begin
      (match peek () with Some "WIRING" -> ignore (next ()); ignore (next ()) | _ -> ());
      (match next () with "SCH" -> () | t -> failwith ("expected SCH got " ^ t));
      let ns = next_int () in
      let sch = repeat ns parse_store in
      let st = ref st_empty in
      let buf = Buffer.create 4096 in
      while peek () <> None do
        let t = parse_tx () in
        let panicked = ref false in
        let ks (a, b) = (List.map kind_str a, b) in
        let ((((rs, bss), committed), st'), evs) = (match t with
          | `Plain t -> let (((rs, c), s'), e) = run_tx sch fuel !st t in ((((List.map kind_str rs, []), c), s'), e)
          | `Derived t -> let (((rs, c), s'), e) = run_xtx sch fuel !st t in ((((List.map kind_str rs, []), c), s'), e)
          | `Linked t -> let (((rb, c), s'), e) = run_ltx sch fuel !st t in (((ks rb, c), s'), e)
          | `Ctx (sys, vetoes, p) ->
              let o = ctx_update sch fuel !st sys vetoes p in
              ((((List.map kind_str o.co_results, []), o.co_committed), o.co_state), o.co_events)
          | `Panic (sys, vetoes, veto_panics, pp) ->
              (* how a rejection surfaces is not known to the model (Properties/C07Panic.v quantifies over it); the guess - a
                 veto-kind failure is the panicking constraint - only affects the printed result kind, compared as failed / ok *)
              let surf _ k = if veto_panics && k = EOther then SPanic else SReturn in
              let o = ptx_update sch fuel !st sys vetoes surf pp in
              panicked := (o.p_caller = CPanic);
              let rstr = function PROk -> "ok" | PRErr k -> kind_str (Some k) | PRPanic -> "panic" in
              ((((List.map rstr o.p_results, []), o.p_caller = CNil), o.p_state), p_events o)) in
        st := st';
        Buffer.add_string buf "TX R";
        List.iter (fun r -> Buffer.add_char buf ' '; Buffer.add_string buf r) rs;
        Buffer.add_string buf (if committed then " COMMIT" else " ROLLBACK");
        if !panicked then Buffer.add_string buf " PANICKED";
        let evl = List.sort compare (List.map (fun e ->
          Printf.sprintf "EV:%s:%s:%s:%s" (string_of_name e.ev_store) (change_str e.ev_change) (hex_of_bytes e.ev_id) (bool_str e.ev_parent)) evs) in
        List.iter (fun e -> Buffer.add_char buf ' '; Buffer.add_string buf e) evl;
        (* the bools the single-link operations observed: LB:<operation index>:<b>,<b>.. *)
        List.iteri (fun k bs -> if bs <> [] then
          Buffer.add_string buf (Printf.sprintf " LB:%d:%s" k (String.concat "," (List.map (fun b -> if b then "1" else "0") bs)))) bss;
        if wants_hook_counts t then
          List.iter (fun tok -> Buffer.add_char buf ' '; Buffer.add_string buf tok) (hook_tokens sch committed evs);
        List.iter (fun d ->
          let nm = string_of_name d.sd_name in
          let pr tag l = Buffer.add_string buf (Printf.sprintf " %s:%s:%s" tag nm (String.concat "," (List.map hex_of_bytes l))) in
          pr "Q" (query_ids sch !st d.sd_name);
          pr "V" (valid_ids sch !st d.sd_name);
          pr "L" (find_ids sch !st d.sd_name)) sch;
        Buffer.add_string buf " ST";
        List.iter (fun f -> Buffer.add_char buf ' '; Buffer.add_string buf f) (facts sch !st);
        Buffer.add_string buf " | "
      done;
      print_endline (Buffer.contents buf)
    end)
