From Coq Require Import Extraction ExtrOcamlBasic NArith ZArith List.
From Storage Require Import Base.Bytes Store.Model Store.Events Store.TxHooks Store.TxShared Store.EventsReg.
Extraction Language OCaml.
Definition force_types : nat * N * Z := (O, 0%N, 0%Z).
Extraction "c08_model.ml" force_types st_empty run_tx run_tx_v db_update hook_tx registered_commits registered_pres flatten shared_update shared_tx shared_registered_commits live_pres dead_pres delivered_to cstep reg_pinned heap_empty nil_slice reg_types mkListener find_store root_of is_child children_of
  query_ids valid_ids find_ids.
