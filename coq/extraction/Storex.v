From Coq Require Import Extraction ExtrOcamlBasic NArith ZArith List.
From Storage Require Import Base.Bytes Store.Model Store.SystemMixed Store.SystemRestore Store.Paging Store.XOps Store.Lookups Store.PagingCursor.
Extraction Language OCaml.
Definition force_types : nat * N * Z := (O, 0%N, 0%Z).
Extraction "storex_model.ml" force_types st_empty run_tx find_store root_of is_child children_of query_ids valid_ids find_ids
  get_field loadable present isSystemF run_mtx hist_step
  ids_of sorting_scan unsorted_scan cursor_scan
  run_xtx
  lk_find_by_id lk_load_by_id lk_load_entity lk_is_entity_present lk_bucket lk_valid_id lk_queried lk_related lk_is_related
  get_set unsorted_scan_over sorting_scan_over cands_set_all cands_set_any.
