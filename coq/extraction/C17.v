From Coq Require Import Extraction ExtrOcamlBasic NArith ZArith.
From Storage Require Import Base.Bytes Db.Content Db.Timeline Db.Snapshot Db.Reader Db.RestoreX Db.SnapPath Db.RestoreMeta Db.SnapView.
Extraction Language OCaml.
Definition force_types : nat * N * Z := (O, 0%N, 0%Z).
Extraction "c17_model.ml" force_types run_obs empty_db step xrun_obs empty_xdb xstep copy prun_obs empty_pdb pstep expand default_path mrun_obs mstep mcalls vstep empty_vdb returning.
