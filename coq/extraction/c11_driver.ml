(* C11 driver.  Case lines:  <kind> <hex>
     T <token>   -> parse_zql_string token
     L <s>       -> expressible_min expressible_full  token-ok(min) token-ok(full)  value(min literal) value(full literal)
     B <body>    -> body_ok body
     Q <path> <op> <ctx> <esc> <s> <k> <nd> <decoy>*nd <nr> <row>*nr
                 -> one bit per row: does the row match  <lhs of path> <op> <literal(s)>  (Lang/StrCompare.v);
                    row: ~ (no value / empty set) | hex | hex,hex,.. (set);  `?` = the model abstains
                    (icontains on non-ASCII text: the model folds ASCII letters only) *)
let c11q_str (s : string) : n list = List.map (fun c -> n_of_int (Char.code c)) (List.init (String.length s) (String.get s))
let c11q_ascii (l : n list) = List.for_all (fun b -> int_of_n b < 128) l
let rec c11q_take k l = if k <= 0 then ([], l) else match l with [] -> ([], []) | x :: r -> let (a, b) = c11q_take (k - 1) r in (x :: a, b)
let c11q_elems (row : string) : n list list =
  if row = "~" then [] else List.map bytes_of_hex (String.split_on_char ',' row)
let c11q_sort_uniq (l : n list list) : n list list =
  let key x = List.map int_of_n x in
  List.sort_uniq (fun a b -> compare (key a) (key b)) l
let c11q (f : string list) : string =
  match f with
  | path :: op :: ctx :: esc :: hs :: ks :: nds :: rest ->
      let s = bytes_of_hex hs in
      let k = int_of_string ks and nd = int_of_string nds in
      let (dec, rest) = c11q_take nd rest in
      let decoys = List.map bytes_of_hex dec in
      let rows = match rest with _ :: rows -> rows | [] -> [] in
      let lit v = if esc = "min" then literal_min v else literal_full v in
      let (before, after) = c11q_take k decoys in
      let lits = List.map lit (before @ (s :: after)) in
      let p : (n list option -> bool) =
        match op with
        | "eq" -> cmp_query SEq (lit s) | "neq" -> cmp_query SNeq (lit s)
        | "lt" -> cmp_query SLt (lit s) | "le" -> cmp_query SLe (lit s)
        | "gt" -> cmp_query SGt (lit s) | "ge" -> cmp_query SGe (lit s)
        | "contains" -> contains_query (c11q_str "contains") (lit s)
        | "ncontains" -> contains_query (c11q_str "not contains") (lit s)
        | "icontains" -> icontains_query (c11q_str "icontains") (lit s)
        | "nicontains" -> icontains_query (c11q_str "not icontains") (lit s)
        | "in" -> in_query (c11q_str "in") lits
        | "notin" -> in_query (c11q_str "not in") lits
        | _ -> (fun _ -> false) in
      let abstain = (op = "icontains" || op = "nicontains") &&
        not (c11q_ascii s && List.for_all (fun r -> List.for_all c11q_ascii (c11q_elems r)) rows) in
      if abstain then "Q ?" else
      let bit row =
        let b = match path with
          | "any" -> let es = c11q_sort_uniq (c11q_elems row) in
                     if op = "eq" then any_of_eq_seek (lit s) es else any_of p es
          | "anyfk" -> any_of p (c11q_elems row)
          | "all" -> all_of p (c11q_elems row)
          | _ -> if row = "~" then p None else p (Some (bytes_of_hex row)) in
        let b = if ctx = "n" then not b else b in
        if b then "1" else "0" in
      "Q " ^ String.concat "" (List.map bit rows)
  | _ -> "Q ?"
let () =
  let sub = if Array.length Sys.argv > 1 then Sys.argv.(1) else "c11" in
  ignore sub;
  iter_lines (fun line ->
    match split_ws line with
    | ["T"; h] -> print_endline ("T " ^ hex_of_bytes (parse_zql_string (bytes_of_hex h)))
    | ["L"; h] ->
        let s = bytes_of_hex h in
        let lm = literal_min s and lf = literal_full s in
        Printf.printf "L %s %s %s %s\n" (bool_str (expressible_min s)) (bool_str (expressible_full s))
          (hex_of_bytes (parse_zql_string lm)) (hex_of_bytes (parse_zql_string lf))
    | ["B"; h] -> print_endline ("B " ^ bool_str (body_ok (bytes_of_hex h)))
    | "Q" :: f -> print_endline (c11q f)
    | [] -> ()
    | _ -> print_endline "?")
