(* C11 driver.  Case lines:  <kind> <hex>
     T <token>   -> parse_zql_string token
     L <s>       -> expressible_min expressible_full  token-ok(min) token-ok(full)  value(min literal) value(full literal)
     B <body>    -> body_ok body
     Q <path> <op> <ctx> <esc> <s> <k> <nd> <decoy>*nd <nr> <row>*nr
                 -> one bit per row: does the row match  <lhs of path> <op> <literal(s)>  (Lang/StrCompare.v);
                    row: ~ (no value / empty set) | hex | hex,hex,.. (set);  `?` = the model abstains
                    (icontains on non-ASCII text: the model folds ASCII letters only) *)
let c11q_str (s : string) : n list = List.map (fun c -> n_of_int (Char.code c)) (List.init (String.length s) (String.get s))
let c11q_ascii (l : n list) = List.for_all (fun b -> int_of_n b < 128) l
let rec c11q_take k l = if k <= 0 then ([], l) else match l with [] -> ([], []) | x :: r -> let (a, b) = c11q_take (k - 1) r in (x :: a, b)
let c11q_elems (row : string) : n list list =
  if row = "~" then [] else List.map bytes_of_hex (String.split_on_char ',' row)
let c11q_sort_uniq (l : n list list) : n list list =
  let key x = List.map int_of_n x in
  List.sort_uniq (fun a b -> compare (key a) (key b)) l
let c11q (f : string list) : string =
  match f with
  | path :: op :: ctx :: esc :: hs :: ks :: nds :: rest ->
      let s = bytes_of_hex hs in
      let k = int_of_string ks and nd = int_of_string nds in
      let (dec, rest) = c11q_take nd rest in
      let decoys = List.map bytes_of_hex dec in
      let rows = match rest with _ :: rows -> rows | [] -> [] in
      let lit v = if esc = "min" then literal_min v else literal_full v in
      let (before, after) = c11q_take k decoys in
      let lits = List.map lit (before @ (s :: after)) in
      let p : (n list option -> bool) =
        match op with
        | "eq" -> cmp_query SEq (lit s) | "neq" -> cmp_query SNeq (lit s)
        | "lt" -> cmp_query SLt (lit s) | "le" -> cmp_query SLe (lit s)
        | "gt" -> cmp_query SGt (lit s) | "ge" -> cmp_query SGe (lit s)
        | "contains" -> contains_query (c11q_str "contains") (lit s)
        | "ncontains" -> contains_query (c11q_str "not contains") (lit s)
        | "icontains" -> icontains_query (c11q_str "icontains") (lit s)
        | "nicontains" -> icontains_query (c11q_str "not icontains") (lit s)
        | "in" -> in_query (c11q_str "in") lits
        | "notin" -> in_query (c11q_str "not in") lits
        | _ -> (fun _ -> false) in
      let abstain = (op = "icontains" || op = "nicontains") &&
        not (c11q_ascii s && List.for_all (fun r -> List.for_all c11q_ascii (c11q_elems r)) rows) in
      if abstain then "Q ?" else
      let bit row =
        let b = match path with
          | "any" -> let es = c11q_sort_uniq (c11q_elems row) in
                     if op = "eq" then any_of_eq_seek (lit s) es else any_of p es
          | "anyfk" -> any_of p (c11q_elems row)
          | "all" -> all_of p (c11q_elems row)
          | _ -> if row = "~" then p None else p (Some (bytes_of_hex row)) in
        let b = if ctx = "n" then not b else b in
        if b then "1" else "0" in
      "Q " ^ String.concat "" (List.map bit rows)
  | _ -> "Q ?"
(* M <env> <nf> <filter>*nf <nr> <row>*nr  -> per filter one bit per row: filter_query (Lang/StrFilter.v) of the filter
   written with each comparison's escaper; filter in prefix form:
     and F F | or F F | not F | grp F | t | f | ne F | em F | cnt F | a <lhs> <op> <esc> <n> <hex>*n
   row: <name>/<descr>/<tags>/<peers>  (~ = no value / no set; sets hex,hex,..);  `?` = the model abstains (icontains
   over non-ASCII text) *)
let rec c11m_filter (tok : string list) : atom filter * string list * bool =
  (* returns the filter, the remaining tokens, and whether an icontains comparison has a non-ASCII literal *)
  match tok with
  | "t" :: r -> (FConst true, r, false)
  | "f" :: r -> (FConst false, r, false)
  | "grp" :: r -> c11m_filter r
  | "not" :: r -> let (f, r, na) = c11m_filter r in (FNot f, r, na)
  | "ne" :: r -> let (f, r, na) = c11m_filter r in (FSub (SubNotEmpty, f), r, na)
  | "em" :: r -> let (f, r, na) = c11m_filter r in (FSub (SubEmpty, f), r, na)
  | "cnt" :: r -> let (f, r, na) = c11m_filter r in (FSub (SubCountPos, f), r, na)
  | "and" :: r -> let (f, r, na) = c11m_filter r in let (g, r, nb) = c11m_filter r in (FAnd (f, g), r, na || nb)
  | "or" :: r -> let (f, r, na) = c11m_filter r in let (g, r, nb) = c11m_filter r in (FOr (f, g), r, na || nb)
  | "a" :: lhs :: op :: esc :: ns :: r ->
      let (hs, r) = c11q_take (int_of_string ns) r in
      let vals = List.map bytes_of_hex hs in
      let s = match vals with v :: _ -> v | [] -> [] in
      let lit v = if esc = "min" then literal_min v else literal_full v in
      let l = match lhs with
        | "name" -> LField FName | "descr" -> LField FDescr | "any" -> LAnyTags | "all" -> LAllTags | _ -> LAnyPeerNames in
      let v = match op with
        | "eq" -> VCmp (SEq, s) | "neq" -> VCmp (SNeq, s) | "lt" -> VCmp (SLt, s) | "le" -> VCmp (SLe, s)
        | "gt" -> VCmp (SGt, s) | "ge" -> VCmp (SGe, s)
        | "contains" -> VContains (false, s) | "ncontains" -> VContains (true, s)
        | "icontains" -> VIContains (false, s) | "nicontains" -> VIContains (true, s)
        | "in" -> VIn (false, vals) | _ -> VIn (true, vals) in
      let fold = (op = "icontains" || op = "nicontains") in
      (FAtom (l, write_atom lit v), r, fold && not (c11q_ascii s))
  | _ -> failwith "bad filter"
let rec c11m_has_fold (tok : string list) = List.mem "icontains" tok || List.mem "nicontains" tok
let c11m_row (tok : string) : row * bool =
  match String.split_on_char '/' tok with
  | [name; descr; tags; peers] ->
      let opt x = if x = "~" then None else Some (bytes_of_hex x) in
      let set x = if x = "~" then [] else List.map bytes_of_hex (String.split_on_char ',' x) in
      let r = { r_name = opt name; r_descr = opt descr; r_tags = c11q_sort_uniq (set tags); r_peers = set peers } in
      let ascii = List.for_all c11q_ascii ((match r.r_name with Some v -> [v] | None -> []) @
                    (match r.r_descr with Some v -> [v] | None -> []) @ r.r_tags @ r.r_peers) in
      (r, ascii)
  | _ -> failwith "bad row"
let c11m (f : string list) : string =
  try
    match f with
    | _env :: nfs :: rest ->
        let nf = int_of_string nfs in
        let rec filters k tok acc =
          if k = 0 then (List.rev acc, tok) else
          let before = tok in
          let (flt, r, na) = c11m_filter tok in
          let used = fst (c11q_take (List.length before - List.length r) before) in
          filters (k - 1) r ((flt, na, c11m_has_fold used) :: acc) in
        let (fs, rest) = filters nf rest [] in
        let rows = match rest with _ :: rows -> List.map c11m_row rows | [] -> [] in
        let rows_ascii = List.for_all snd rows in
        let one (flt, na, fold) =
          if na || (fold && not rows_ascii) then "?" else
          String.concat "" (List.map (fun (r, _) -> if filter_query flt r then "1" else "0") rows) in
        "M " ^ String.concat " " (List.map one fs)
    | _ -> "M ?"
  with _ -> "M ?"
let () =
  let sub = if Array.length Sys.argv > 1 then Sys.argv.(1) else "c11" in
  ignore sub;
  iter_lines (fun line ->
    match split_ws line with
    | ["T"; h] -> print_endline ("T " ^ hex_of_bytes (parse_zql_string (bytes_of_hex h)))
    | ["L"; h] ->
        let s = bytes_of_hex h in
        let lm = literal_min s and lf = literal_full s in
        Printf.printf "L %s %s %s %s\n" (bool_str (expressible_min s)) (bool_str (expressible_full s))
          (hex_of_bytes (parse_zql_string lm)) (hex_of_bytes (parse_zql_string lf))
    | ["B"; h] -> print_endline ("B " ^ bool_str (body_ok (bytes_of_hex h)))
    | "Q" :: f -> print_endline (c11q f)
    | "M" :: f -> print_endline (c11m f)
    | [] -> ()
    | _ -> print_endline "?")
