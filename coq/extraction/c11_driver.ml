(* C11 driver.  Case lines:  <kind> <hex>
     T <token>   -> parse_zql_string token
     L <s>       -> expressible_min expressible_full  token-ok(min) token-ok(full)  value(min literal) value(full literal)
     B <body>    -> body_ok body *)
let () =
  let sub = if Array.length Sys.argv > 1 then Sys.argv.(1) else "c11" in
  ignore sub;
  iter_lines (fun line ->
    match split_ws line with
    | ["T"; h] -> print_endline ("T " ^ hex_of_bytes (parse_zql_string (bytes_of_hex h)))
    | ["L"; h] ->
        let s = bytes_of_hex h in
        let lm = literal_min s and lf = literal_full s in
        Printf.printf "L %s %s %s %s\n" (bool_str (expressible_min s)) (bool_str (expressible_full s))
          (hex_of_bytes (parse_zql_string lm)) (hex_of_bytes (parse_zql_string lf))
    | ["B"; h] -> print_endline ("B " ^ bool_str (body_ok (bytes_of_hex h)))
    | [] -> ()
    | _ -> print_endline "?")
