From Coq Require Import Extraction ExtrOcamlBasic NArith ZArith List.
From Storage Require Import Base.Bytes Ast.AstTable Ast.Visitor Ast.VisitorGen Ast.PublicCfg Ast.ValidateSeq.
Extraction Language OCaml.
Definition force_types : nat * N * Z := (O, 0%N, 0%Z).
Extraction "c20_model.ml" force_types name_bytes
  gen_visit gen_all_syms gen_shaped_b gen_validate gen_table_complete gen_gaps gen_validator_ok gen_kind_names
  is_public cfg_observe gen_validate_seq.
