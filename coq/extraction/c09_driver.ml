(* C09 driver: runs the history of a case through the extracted store machine, applies the raw
   corruptions to the resulting state and runs the extracted integrity checker (Store/Integrity.v):
   check-only (twice: the read-only and the write transaction of the harness), fix, re-check.
   Parser / fact printer copied from store_driver.ml; format: harness/cmd/storageharness/store_c09.go.
   `model_c09 legacy` runs the model of the pinned (unrepaired) checker instead. *)
let name_of_string (s : string) : n list =
  List.init (String.length s) (fun i -> n_of_int (Char.code s.[i]))
let string_of_name (l : n list) : string =
  String.concat "" (List.map (fun b -> String.make 1 (Char.chr (int_of_n b))) l)

let toks = ref [||]
let pos = ref 0
let next () = let t = !toks.(!pos) in incr pos; t
let peek () = if !pos < Array.length !toks then Some !toks.(!pos) else None
let next_int () = int_of_string (next ())
let next_bool () = next () = "1"
let next_name () = name_of_string (next ())
let next_hex () = bytes_of_hex (next ())
let rec repeat k f = if k <= 0 then [] else let x = f () in x :: repeat (k - 1) f

let parse_cons () =
  match next () with
  | "U" -> let f = next_name () in let nl = next_bool () in CUnique (f, nl)
  | "SI" -> CSetIdx (next_name ())
  | "FI" -> let f = next_name () in let t = next_name () in let b = next_name () in let nl = next_bool () in CFkIndex (f, t, b, nl)
  | "FR" -> CFkRestrict (next_name ())
  | "FC" -> let f = next_name () in let t = next_name () in let nl = next_bool () in CFkCons (f, t, nl)
  | "CA" -> let r = next_name () in let f = next_name () in let c = (match next () with "D" -> CascDelete | _ -> CascNone) in CFkCascade (r, f, c)
  | "SY" -> CSystem
  | t -> failwith ("bad cons " ^ t)

let parse_store () =
  (match next () with "ST" -> () | t -> failwith ("expected ST got " ^ t));
  let nm = next_name () in
  let parent = (match next () with "-" -> None | p -> Some (name_of_string p)) in
  let ext = next_bool () in
  let nf = next_int () in
  let fields = repeat nf (fun () -> let f = next_name () in let p = next_bool () in (f, p)) in
  let ns = next_int () in
  let sets = repeat ns next_name in
  let nc = next_int () in
  let cons = repeat nc parse_cons in
  let nl = next_int () in
  let links = repeat nl (fun () -> let a = next_name () in let b = next_name () in let c = next_name () in ((a, b), c)) in
  { sd_name = nm; sd_parent = parent; sd_ext = ext; sd_fields = fields; sd_sets = sets; sd_cons = cons; sd_links = links }

let parse_fv () =
  let n = next_int () in
  repeat n (fun () -> let f = next_name () in let v = (match next () with "N" -> None | h -> Some (bytes_of_hex h)) in (f, v))
let parse_sv () =
  let n = next_int () in
  repeat n (fun () -> let f = next_name () in let k = next_int () in let l = repeat k next_hex in (f, l))
let parse_change () = match next () with "C" -> Created | "U" -> Updated | _ -> Deleted

let parse_op () =
  match next () with
  | "C" -> let s = next_name () in let i = next_hex () in let sys = next_bool () in let fv = parse_fv () in let sv = parse_sv () in OCreate (s, i, sys, fv, sv)
  | "UP" -> let s = next_name () in let i = next_hex () in let fv = parse_fv () in let sv = parse_sv () in
      let ch = (match next () with "-" -> None | k -> Some (repeat (int_of_string k) next_name)) in
      OUpdate (s, i, fv, sv, ch)
  | "D" -> let s = next_name () in let i = next_hex () in ODelete (s, i)
  | "AL" -> let s = next_name () in let i = next_hex () in let lf = next_name () in let k = next_int () in let ts = repeat k next_hex in OAddLinks (s, i, lf, ts)
  | "RL" -> let s = next_name () in let i = next_hex () in let lf = next_name () in let k = next_int () in let ts = repeat k next_hex in ORemoveLinks (s, i, lf, ts)
  | "FAIL" -> OFail
  | "FAILT" -> ignore (next ()); ignore (next ()); OFail
  | t -> failwith ("bad op " ^ t)

let parse_tx () =
  (match next () with "TX" -> () | t -> failwith ("expected TX got " ^ t));
  let sys = next_bool () in
  let pcf = next_bool () in
  let nv = next_int () in
  let vetoes = repeat nv (fun () -> let s = next_name () in let c = parse_change () in let i = next_hex () in ((s, c), i)) in
  let no = next_int () in
  let ops = repeat no parse_op in
  { tx_sys = sys; tx_vetoes = vetoes; tx_ops = ops; tx_precommit_fails = pcf }

let fval_str = function
  | FAbsent -> "absent" | FNil -> "nil" | FStr s -> "s" ^ hex_of_bytes s | FBool b -> if b then "b1" else "b0"

let kind_str = function
  | None -> "ok" | Some EDuplicate -> "dup" | Some ENotFound -> "notfound" | Some ERefExists -> "refexists"
  | Some EOther -> "err" | Some EOutOfFuel -> "FUEL"

let change_str = function Created -> "C" | Updated -> "U" | Deleted -> "D"

let facts (sch : sdef list) (st : state) : string list =
  let out = ref [] in
  let add s = out := s :: !out in
  List.iter (fun d ->
    match d.sd_parent with
    | Some _ -> ()
    | None ->
      let r = d.sd_name in
      let rn = string_of_name r in
      List.iter (fun (i, e) ->
        let ih = hex_of_bytes i in
        add (Printf.sprintf "E:%s:%s" rn ih);
        List.iter (fun (f, v) -> add (Printf.sprintf "F:%s:%s:%s:%s" rn ih (string_of_name f) (fval_str v))) e.e_f;
        List.iter (fun (f, l) -> List.iter (fun m -> add (Printf.sprintf "S:%s:%s:%s:%s" rn ih (string_of_name f) (hex_of_bytes m))) l) e.e_s;
        List.iter (fun (c, cd) ->
          add (Printf.sprintf "C:%s:%s:%s" rn ih (string_of_name c));
          List.iter (fun (f, v) -> add (Printf.sprintf "CF:%s:%s:%s:%s:%s" rn ih (string_of_name c) (string_of_name f) (fval_str v))) cd) e.e_c
      ) (st.ents r);
      (* indexes of the root store and of its child stores live under the root's entity type *)
      let owners = d :: children_of sch r in
      List.iter (fun o ->
        List.iter (fun k ->
          match k with
          | CUnique (f, _) ->
              List.iter (fun (v, i) -> add (Printf.sprintf "U:%s:%s:%s:%s" rn (string_of_name f) (hex_of_bytes v) (hex_of_bytes i))) (st.uidx r f)
          | CSetIdx f ->
              List.iter (fun (v, l) ->
                add (Printf.sprintf "XK:%s:%s:%s" rn (string_of_name f) (hex_of_bytes v));
                List.iter (fun i -> add (Printf.sprintf "X:%s:%s:%s:%s" rn (string_of_name f) (hex_of_bytes v) (hex_of_bytes i))) l) (st.sidx r f)
          | _ -> ()) o.sd_cons) owners
  ) sch;
  List.sort_uniq compare !out


let parse_corruption1 () =
  match next () with
  | "UD" -> let r = next_name () in let f = next_name () in let v = next_hex () in Some (XUDel (r, f, v))
  | "UP" -> let r = next_name () in let f = next_name () in let v = next_hex () in let i = next_hex () in Some (XUPut (r, f, v, i))
  | "SDI" -> let r = next_name () in let f = next_name () in let v = next_hex () in let i = next_hex () in Some (XSDelId (r, f, v, i))
  | "SDK" -> let r = next_name () in let f = next_name () in let v = next_hex () in Some (XSDelKey (r, f, v))
  | "SAI" -> let r = next_name () in let f = next_name () in let v = next_hex () in let i = next_hex () in Some (XSAddId (r, f, v, i))
  | "SAK" -> let r = next_name () in let f = next_name () in let v = next_hex () in Some (XSAddKey (r, f, v))
  | "SJ" -> ignore (next ()); ignore (next ()); ignore (next ()); None   (* a non-bucket key: not representable in the model state *)
  | "ED" -> let r = next_name () in let i = next_hex () in let b = next_name () in let x = next_hex () in Some (XSetDel (r, i, b, x))
  | "EA" -> let r = next_name () in let i = next_hex () in let b = next_name () in let x = next_hex () in Some (XSetAdd (r, i, b, x))
  | "FS" -> let r = next_name () in let i = next_hex () in let f = next_name () in let v = next_hex () in Some (XField (r, i, f, v))
  | "FN" -> let r = next_name () in let i = next_hex () in let f = next_name () in Some (XFieldNil (r, i, f))
  (* whole-bucket corruptions: the model state does not distinguish "bucket absent" (..DB) from "bucket present but empty" (..EB) *)
  | "EDB" | "EEB" -> let r = next_name () in let i = next_hex () in let b = next_name () in Some (XSetClear (r, i, b))
  | "SEK" -> let r = next_name () in let f = next_name () in let v = next_hex () in Some (XSClearKey (r, f, v))
  (* a field in the bucket of a child store *)
  | "CFS" -> let r = next_name () in let i = next_hex () in let c = next_name () in let f = next_name () in let v = next_hex () in Some (XCField (r, i, c, f, v))
  | "CFN" -> let r = next_name () in let i = next_hex () in let c = next_name () in let f = next_name () in Some (XCFieldNil (r, i, c, f))
  | t -> failwith ("bad corruption " ^ t)

(* the index bucket of a symbol: the symbol is a unique index or a set index, the other map has no entry under (r, f) *)
let parse_corruption () =
  match peek () with
  | Some ("XDB" | "XEB") ->
      ignore (next ()); let r = next_name () in let f = next_name () in [XSClearIdx (r, f); XUClearIdx (r, f)]
  | _ -> (match parse_corruption1 () with Some x -> [x] | None -> [])

let kind_name = function
  | KUStale -> "KUStale" | KUWrong -> "KUWrong" | KUMissing -> "KUMissing" | KUConflict -> "KUConflict" | KNil -> "KNil"
  | KSMissingEntity -> "KSMissingEntity" | KSStale -> "KSStale" | KSEmptyKey -> "KSEmptyKey" | KSMissing -> "KSMissing"
  | KBDangling -> "KBDangling" | KBWrong -> "KBWrong" | KFkDangling -> "KFkDangling" | KBMissing -> "KBMissing"
  | KLOneSided -> "KLOneSided" | KLDangling -> "KLDangling"

let () =
  let legacy = Array.length Sys.argv > 1 && Sys.argv.(Array.length Sys.argv - 1) = "legacy" in
  let check = if legacy then check_all_legacy else check_all in
  let fuel = nat_of_int 64 in
  iter_lines (fun line ->
    toks := Array.of_list (split_ws line);
    pos := 0;
    if Array.length !toks = 0 then print_endline "" else begin
      (match peek () with Some "WIRING" -> ignore (next ()); ignore (next ()) | _ -> ());
      (match next () with "SCH" -> () | t -> failwith ("expected SCH got " ^ t));
      let ns = next_int () in
      let sch = repeat ns parse_store in
      let st = ref st_empty in
      while peek () = Some "TX" do
        let t = parse_tx () in
        let (((_, _), st'), _) = run_tx sch fuel !st t in
        st := st'
      done;
      let cs = (match peek () with
        | Some "CORRUPT" -> ignore (next ()); let n = next_int () in
            List.concat (repeat n parse_corruption)
        | _ -> []) in
      st := corrupt_all !st cs;
      let buf = Buffer.create 8192 in
      let phase tag raw reports st =
        Buffer.add_string buf (tag ^ " ok" ^ (if raw then " RAWSAME" else "") ^ " R");
        let rs = List.sort compare (List.map (fun r -> kind_name r.r_kind ^ ":" ^ bool_str r.r_fixed) reports) in
        List.iter (fun r -> Buffer.add_char buf ' '; Buffer.add_string buf r) rs;
        Buffer.add_string buf " ST";
        List.iter (fun f -> Buffer.add_char buf ' '; Buffer.add_string buf f) (facts sch st);
        Buffer.add_string buf " | " in
      phase "PRE" false [] !st;
      let (r1, st1) = check sch false !st in
      phase "CKR" true r1 st1;
      let (r2, st2) = check sch false st1 in
      phase "CKW" true r2 st2;
      let (r3, st3) = check sch true st2 in
      phase "FIX" false r3 st3;
      let (r4, st4) = check sch false st3 in
      phase "RCK" true r4 st4;
      print_endline (Buffer.contents buf)
    end)
